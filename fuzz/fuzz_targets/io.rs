#![no_main]
use libfuzzer_sys::fuzz_target;

fuzz_target!(init: {
    mcmc_verif::engine::install_quiet_panic_hook();
}, |data: &[u8]| {
    mcmc_verif::props::fuzzapi::io(data);
});

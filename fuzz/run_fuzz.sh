#!/bin/bash
# usage: run_fuzz.sh <property id>   (thorough tier; called by ../check after the proptest pass)
# Coverage-guided libFuzzer campaign for the properties that have a fuzz target. The semantic
# oracle is inside the target (same functions as the proptest sections).
# exit 0: nothing found; 1: VIOLATION (confirmed through the release harness); 2: infrastructure.
set -u
HERE="$(cd "$(dirname "$0")" && pwd)"
ID="$1"
case "$ID" in
  C01) TARGET=mh_step ;;
  C11|C12|C13) TARGET=stats ;;
  C16) TARGET=categorical ;;
  C17) TARGET=io ;;
  *) exit 0 ;;
esac
cd "$HERE"
export CARGO_NET_OFFLINE=true
export RAYON_NUM_THREADS=1
export VERIF_DIR="${VERIF_DIR:-$(dirname "$HERE")}"
RUNS="${VERIF_FUZZ_RUNS:-400000}"
SEED=$(( ${VERIF_SEED:-0} + 1 ))
LOG="$HERE/target/fuzz-$TARGET.log"
mkdir -p "$HERE/target"
if ! cargo +nightly fuzz build --fuzz-dir "$HERE" "$TARGET" >"$LOG.build" 2>&1; then
  tail -n 30 "$LOG.build"
  echo "INFRASTRUCTURE: cargo fuzz build $TARGET failed"
  exit 2
fi
CORPUS="$HERE/corpus/$TARGET"
rm -rf "$CORPUS"; mkdir -p "$CORPUS" "$HERE/artifacts/$TARGET"
# a few random seed inputs so that libFuzzer does not ramp the length up from zero
python3 - "$CORPUS" "$SEED" <<'PY'
import sys,random
d,seed=sys.argv[1],int(sys.argv[2])
r=random.Random(seed)
for i in range(32):
    open(f"{d}/seed{i}","wb").write(bytes(r.getrandbits(8) for _ in range(r.choice([16,64,256,1024]))))
PY
WORKERS=8
cargo +nightly fuzz run --fuzz-dir "$HERE" "$TARGET" -- -runs=$((RUNS / WORKERS)) -seed=$SEED -len_control=0 -max_len=2048 -workers=$WORKERS -jobs=$WORKERS -print_final_stats=1 >"$LOG" 2>&1
RC=$?
EXECS=$(grep -h "stat::number_of_executed_units" "$HERE"/fuzz-*.log "$LOG" 2>/dev/null | awk '{s+=$2} END {print s+0}')
rm -f "$HERE"/fuzz-*.log
echo "FUZZ target=$TARGET property=$ID executions=$EXECS libfuzzer_exit=$RC"
REPLAY=$(grep -h "^FUZZ-REPLAY property=$ID" "$LOG" "$HERE"/fuzz-*.log 2>/dev/null | head -1 | sed 's/.*replay=//')
if [ -z "$REPLAY" ]; then
  REPLAY=$(grep -h "^FUZZ-REPLAY" "$LOG" 2>/dev/null | head -1 | sed 's/.*replay=//')
fi
if [ -n "$REPLAY" ]; then
  PID=$(echo "$REPLAY" | sed 's#.*/\(C[0-9]*\)-.*#\1#')
  # re-check through the release harness (cargo-fuzz builds with debug assertions and ASan)
  if (cd "$VERIF_DIR" && ./check "$PID" --replay "$REPLAY" | grep -q "^VIOLATION"); then
    grep -h "^FUZZ-FAIL" "$LOG" | head -1
    echo "VIOLATION property=$PID replay=$REPLAY"
    exit 1
  fi
  echo "INFRASTRUCTURE: fuzz target reported a failure that the release harness does not reproduce ($REPLAY)"
  exit 2
fi
if [ $RC -ne 0 ]; then
  tail -n 20 "$LOG"
  echo "INFRASTRUCTURE: libFuzzer ended with status $RC without a semantic failure (crash in the harness?)"
  exit 2
fi
exit 0

//! Numeric helpers: serialisable floats (NaN/inf safe), ulp steps, tolerances, z-scores,
//! a small deterministic PRNG for bulk data derived from a case's `data_seed`.

use serde::{de::Visitor, Deserialize, Deserializer, Serialize, Serializer};
use std::fmt;

/// f64 that survives JSON (non-finite values are written as strings).
#[derive(Clone, Copy, PartialEq, PartialOrd, Default)]
pub struct R(pub f64);

impl fmt::Debug for R {
    fn fmt(&self, f: &mut fmt::Formatter<'_>) -> fmt::Result {
        write!(f, "{:?}", self.0)
    }
}

impl Serialize for R {
    fn serialize<S: Serializer>(&self, s: S) -> Result<S::Ok, S::Error> {
        if self.0.is_finite() {
            s.serialize_f64(self.0)
        } else if self.0.is_nan() {
            s.serialize_str("NaN")
        } else if self.0 > 0.0 {
            s.serialize_str("inf")
        } else {
            s.serialize_str("-inf")
        }
    }
}

struct RV;
impl<'de> Visitor<'de> for RV {
    type Value = R;
    fn expecting(&self, f: &mut fmt::Formatter) -> fmt::Result {
        f.write_str("a number or NaN/inf/-inf")
    }
    fn visit_f64<E>(self, v: f64) -> Result<R, E> {
        Ok(R(v))
    }
    fn visit_i64<E>(self, v: i64) -> Result<R, E> {
        Ok(R(v as f64))
    }
    fn visit_u64<E>(self, v: u64) -> Result<R, E> {
        Ok(R(v as f64))
    }
    fn visit_str<E: serde::de::Error>(self, v: &str) -> Result<R, E> {
        match v {
            "NaN" | "nan" => Ok(R(f64::NAN)),
            "inf" | "+inf" => Ok(R(f64::INFINITY)),
            "-inf" => Ok(R(f64::NEG_INFINITY)),
            _ => v.parse::<f64>().map(R).map_err(E::custom),
        }
    }
}
impl<'de> Deserialize<'de> for R {
    fn deserialize<D: Deserializer<'de>>(d: D) -> Result<R, D::Error> {
        d.deserialize_any(RV)
    }
}

pub fn rv(v: &[R]) -> Vec<f64> {
    v.iter().map(|r| r.0).collect()
}
pub fn vr(v: &[f64]) -> Vec<R> {
    v.iter().map(|r| R(*r)).collect()
}

pub fn next_up(x: f64) -> f64 {
    if x.is_nan() || x == f64::INFINITY {
        return x;
    }
    if x == 0.0 {
        return f64::from_bits(1);
    }
    let b = x.to_bits();
    if x > 0.0 {
        f64::from_bits(b + 1)
    } else {
        f64::from_bits(b - 1)
    }
}
pub fn next_down(x: f64) -> f64 {
    -next_up(-x)
}
pub fn next_up32(x: f32) -> f32 {
    if x.is_nan() || x == f32::INFINITY {
        return x;
    }
    if x == 0.0 {
        return f32::from_bits(1);
    }
    let b = x.to_bits();
    if x > 0.0 {
        f32::from_bits(b + 1)
    } else {
        f32::from_bits(b - 1)
    }
}
pub fn next_down32(x: f32) -> f32 {
    -next_up32(-x)
}

/// |a-b| <= atol + rtol*max(|a|,|b|), NaN == NaN, inf == inf of the same sign
pub fn close(a: f64, b: f64, rtol: f64, atol: f64) -> bool {
    if a.is_nan() || b.is_nan() {
        return a.is_nan() && b.is_nan();
    }
    if a == b {
        return true;
    }
    if a.is_infinite() || b.is_infinite() {
        return false;
    }
    (a - b).abs() <= atol + rtol * a.abs().max(b.abs())
}

pub fn bits_eq(a: f64, b: f64) -> bool {
    a.to_bits() == b.to_bits() || (a.is_nan() && b.is_nan())
}
pub fn bits_eq32(a: f32, b: f32) -> bool {
    a.to_bits() == b.to_bits() || (a.is_nan() && b.is_nan())
}

/// splitmix64-seeded xoshiro256** — the harness's own bulk-data generator (pure function of the
/// seed stored in the case; independent of the `rand` crate the library uses).
#[derive(Clone, Debug)]
pub struct Prng {
    s: [u64; 4],
    spare: Option<f64>,
}

impl Prng {
    pub fn new(seed: u64) -> Self {
        let mut x = seed;
        let mut s = [0u64; 4];
        for w in s.iter_mut() {
            x = x.wrapping_add(0x9E37_79B9_7F4A_7C15);
            let mut z = x;
            z = (z ^ (z >> 30)).wrapping_mul(0xBF58_476D_1CE4_E5B9);
            z = (z ^ (z >> 27)).wrapping_mul(0x94D0_49BB_1331_11EB);
            *w = z ^ (z >> 31);
        }
        Prng { s, spare: None }
    }
    pub fn next_u64(&mut self) -> u64 {
        let r = self.s[1].wrapping_mul(5).rotate_left(7).wrapping_mul(9);
        let t = self.s[1] << 17;
        self.s[2] ^= self.s[0];
        self.s[3] ^= self.s[1];
        self.s[1] ^= self.s[2];
        self.s[0] ^= self.s[3];
        self.s[2] ^= t;
        self.s[3] = self.s[3].rotate_left(45);
        r
    }
    /// uniform in (0,1)
    pub fn unif(&mut self) -> f64 {
        ((self.next_u64() >> 11) as f64 + 0.5) / 9007199254740992.0
    }
    pub fn below(&mut self, n: u64) -> u64 {
        if n == 0 {
            0
        } else {
            ((self.next_u64() as u128 * n as u128) >> 64) as u64
        }
    }
    /// standard normal (Box–Muller)
    pub fn normal(&mut self) -> f64 {
        if let Some(z) = self.spare.take() {
            return z;
        }
        let u1 = self.unif();
        let u2 = self.unif();
        let r = (-2.0 * u1.ln()).sqrt();
        let th = 2.0 * std::f64::consts::PI * u2;
        self.spare = Some(r * th.sin());
        r * th.cos()
    }
}

/// mean and standard error of the mean of independent replicates
pub fn mean_se(xs: &[f64]) -> (f64, f64) {
    let n = xs.len() as f64;
    let m = xs.iter().sum::<f64>() / n;
    let v = xs.iter().map(|x| (x - m) * (x - m)).sum::<f64>() / (n - 1.0).max(1.0);
    (m, (v / n).sqrt())
}

/// standard normal CDF
pub fn phi(x: f64) -> f64 {
    0.5 * erfc(-x / std::f64::consts::SQRT_2)
}

/// complementary error function (W. J. Cody style rational approx via continued series; |err|<1e-12)
pub fn erfc(x: f64) -> f64 {
    // Numerical Recipes erfc Chebyshev fit, relative error < 1.2e-7 is not enough; use series/cf
    let ax = x.abs();
    let r = if ax < 2.5 {
        // erf series
        let mut sum = ax;
        let mut term = ax;
        let x2 = ax * ax;
        let mut n = 0.0;
        loop {
            n += 1.0;
            term *= -x2 / n;
            let add = term / (2.0 * n + 1.0);
            sum += add;
            if add.abs() < 1e-17 * sum.abs() || n > 200.0 {
                break;
            }
        }
        1.0 - 2.0 / std::f64::consts::PI.sqrt() * sum
    } else {
        // continued fraction (Lentz) for erfc
        let mut f = 0.0;
        for k in (1..200).rev() {
            f = (k as f64 / 2.0) / (ax + f);
        }
        (-ax * ax).exp() / ((ax + f) * std::f64::consts::PI.sqrt())
    };
    if x >= 0.0 {
        r
    } else {
        2.0 - r
    }
}

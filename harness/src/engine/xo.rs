//! Crafting `SmallRng` (xoshiro256++) states whose *next* output is a chosen value, so that the
//! uniform variate consumed by the code under test can be any representable u in [0,1).

use rand::rngs::SmallRng;
use rand::{Rng, SeedableRng};

/// A `SmallRng` whose first `next_u64()` is `out`. `salt` varies the rest of the state.
pub fn rng_with_first_u64(out: u64, salt: u64) -> SmallRng {
    // xoshiro256++: result = rotl(s0 + s3, 23) + s0
    let s0 = salt | 1;
    let s3 = out.wrapping_sub(s0).rotate_right(23).wrapping_sub(s0);
    let s1 = salt.wrapping_mul(0x9E37_79B9_7F4A_7C15) ^ 0xD1B5_4A32_D192_ED03;
    let s2 = salt.rotate_left(17) ^ 0x8CB9_2BA7_2F3D_8DD7;
    let mut seed = [0u8; 32];
    seed[0..8].copy_from_slice(&s0.to_le_bytes());
    seed[8..16].copy_from_slice(&s1.to_le_bytes());
    seed[16..24].copy_from_slice(&s2.to_le_bytes());
    seed[24..32].copy_from_slice(&s3.to_le_bytes());
    SmallRng::from_seed(seed)
}

/// `SmallRng` whose next `random::<f64>()` is exactly `k * 2^-53` (k < 2^53).
pub fn rng_f64_k(k: u64, salt: u64) -> SmallRng {
    rng_with_first_u64((k & ((1u64 << 53) - 1)) << 11 | (salt & 0x7ff), salt)
}

/// `SmallRng` whose next `random::<f32>()` is exactly `k * 2^-24` (k < 2^24).
pub fn rng_f32_k(k: u64, salt: u64) -> SmallRng {
    rng_with_first_u64((k & ((1u64 << 24) - 1)) << 40 | (salt & 0xff_ffff_ffff), salt)
}

pub const F64_DEN: f64 = 9007199254740992.0; // 2^53
pub const F32_DEN: f64 = 16777216.0; // 2^24

/// Infrastructure self-test: the crafted generators really produce the requested variates with
/// the rand version linked into this binary.
pub fn self_test() -> Result<(), String> {
    let ks64 = [0u64, 1, 2, (1 << 53) - 1, 1 << 52, 0x1234_5678_9abc, 4503599627370497];
    for (i, &k) in ks64.iter().enumerate() {
        let mut r = rng_f64_k(k, 77 + i as u64);
        let u: f64 = r.random();
        if u != k as f64 / F64_DEN {
            return Err(format!("f64 craft failed k={k} got {u}"));
        }
    }
    let ks32 = [0u64, 1, 2, (1 << 24) - 1, 1 << 23, 0xabcdef];
    for (i, &k) in ks32.iter().enumerate() {
        let mut r = rng_f32_k(k, 1234 + i as u64);
        let u: f32 = r.random();
        if u as f64 != k as f64 / F32_DEN {
            return Err(format!("f32 craft failed k={k} got {u}"));
        }
    }
    Ok(())
}

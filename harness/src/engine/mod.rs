//! Driver: proptest `TestRunner` wrapper, coverage accounting, evidence and replay files,
//! known-findings handling.

pub mod num;
pub mod xo;

use proptest::strategy::{BoxedStrategy, Strategy};
use proptest::test_runner::{Config, RngAlgorithm, TestCaseError, TestError, TestRng, TestRunner};
use serde::{de::DeserializeOwned, Deserialize, Serialize};
use serde_json::{json, Value};
use std::cell::RefCell;
use std::collections::{BTreeMap, HashSet};
use std::hash::{Hash, Hasher};
use std::panic::{catch_unwind, AssertUnwindSafe};
use std::path::PathBuf;
use std::time::Instant;

#[derive(Clone, Copy, PartialEq, Eq, Debug)]
pub enum Tier {
    Quick,
    Thorough,
}

impl Tier {
    pub fn name(self) -> &'static str {
        match self {
            Tier::Quick => "quick",
            Tier::Thorough => "thorough",
        }
    }
    /// quick / thorough case counts
    pub fn pick(self, quick: u32, thorough: u32) -> u32 {
        match self {
            Tier::Quick => quick,
            Tier::Thorough => thorough,
        }
    }
}

/// A failed check: `sig` is the stable signature used by the known-findings file.
#[derive(Debug, Clone, Serialize, Deserialize)]
pub struct Fail {
    pub sig: String,
    pub msg: String,
}

impl Fail {
    pub fn new(sig: impl Into<String>, msg: impl Into<String>) -> Self {
        Fail {
            sig: sig.into(),
            msg: msg.into(),
        }
    }
}

pub type CheckResult = Result<(), Fail>;

#[macro_export]
macro_rules! ensure {
    ($cond:expr, $sig:expr, $($arg:tt)*) => {
        if !($cond) {
            return Err($crate::engine::Fail::new($sig, format!($($arg)*)));
        }
    };
}

/// Per-section coverage counters. All methods are no-ops once `frozen` (set at the first
/// failure, because proptest re-enters the closure while shrinking).
#[derive(Default, Serialize, Deserialize)]
pub struct Cov {
    pub frozen: bool,
    pub evaluations: u64,
    pub nontrivial: HashSet<u64>,
    pub classes: BTreeMap<String, u64>,
    pub ambiguous: u64,
    pub excluded_known: u64,
    pub samples: Vec<Value>,
    pub notes: BTreeMap<String, Value>,
    /// running maxima (e.g. largest observed deviation from the reference, for calibration)
    pub maxima: BTreeMap<String, f64>,
    #[serde(default)]
    sample_budget: usize,
}

impl Cov {
    pub fn new() -> Self {
        Cov {
            sample_budget: 3,
            ..Default::default()
        }
    }
    pub fn class(&mut self, name: &str) {
        if !self.frozen {
            *self.classes.entry(name.to_string()).or_insert(0) += 1;
        }
    }
    pub fn class_n(&mut self, name: &str, n: u64) {
        if !self.frozen {
            *self.classes.entry(name.to_string()).or_insert(0) += n;
        }
    }
    pub fn ambiguous(&mut self) {
        if !self.frozen {
            self.ambiguous += 1;
        }
    }
    /// Record a non-trivial case by fingerprint.
    pub fn nontrivial<H: Hash>(&mut self, h: &H) {
        if !self.frozen {
            let mut s = std::collections::hash_map::DefaultHasher::new();
            h.hash(&mut s);
            self.nontrivial.insert(s.finish());
        }
    }
    pub fn nontrivial_u64(&mut self, h: u64) {
        if !self.frozen {
            self.nontrivial.insert(h);
        }
    }
    pub fn note(&mut self, k: &str, v: Value) {
        if !self.frozen {
            self.notes.insert(k.to_string(), v);
        }
    }
    pub fn track_max(&mut self, k: &str, v: f64) {
        if !self.frozen && v.is_finite() {
            let e = self.maxima.entry(k.to_string()).or_insert(f64::NEG_INFINITY);
            if v > *e {
                *e = v;
            }
        }
    }
    /// extra evaluations performed inside one case (e.g. steps of a history)
    pub fn evals(&mut self, n: u64) {
        if !self.frozen {
            self.evaluations += n;
        }
    }
    fn merge(&mut self, o: Cov) {
        self.evaluations += o.evaluations;
        self.nontrivial.extend(o.nontrivial);
        for (k, v) in o.classes {
            *self.classes.entry(k).or_insert(0) += v;
        }
        self.ambiguous += o.ambiguous;
        self.excluded_known += o.excluded_known;
        for s in o.samples {
            if self.samples.len() < 3 {
                self.samples.push(s);
            }
        }
        for (k, v) in o.notes {
            self.notes.insert(k, v);
        }
        for (k, v) in o.maxima {
            let e = self.maxima.entry(k).or_insert(f64::NEG_INFINITY);
            if v > *e {
                *e = v;
            }
        }
    }
}

/// stable 64-bit fingerprint of any serialisable case
pub fn fingerprint<T: Serialize>(t: &T) -> u64 {
    let s = serde_json::to_string(t).unwrap_or_default();
    let mut h = std::collections::hash_map::DefaultHasher::new();
    s.hash(&mut h);
    h.finish()
}

#[derive(Deserialize, Default, Debug, Clone)]
pub struct KnownFindings {
    #[serde(default)]
    pub known: Vec<KnownEntry>,
    #[serde(default)]
    pub fixed: Vec<Value>,
}

#[derive(Deserialize, Debug, Clone)]
pub struct KnownEntry {
    pub property: String,
    pub signature: String,
    pub what: String,
}

#[derive(Serialize, Deserialize, Debug, Clone)]
pub struct ReplayFile {
    pub property: String,
    pub section: String,
    pub case: Value,
    #[serde(default)]
    pub message: String,
    #[serde(default)]
    pub signature: String,
    #[serde(default)]
    pub seed: u64,
}

pub struct SectionReport {
    pub wall_s: f64,
    pub name: String,
    pub cov: Cov,
    pub rule: String,
}

pub struct Ctx {
    pub id: String,
    pub tier: Tier,
    pub seed: u64,
    pub verif_dir: PathBuf,
    pub known: KnownFindings,
    pub sections: Vec<SectionReport>,
    pub violations: Vec<(String, PathBuf)>,
    pub known_hits: BTreeMap<String, String>,
    pub assumptions: Vec<String>,
    pub rule: String,
    pub replay: Option<ReplayFile>,
    pub replay_hit: bool,
    /// child-process mode: run only this (section, shard index, cases) and print the result
    pub shard: Option<(String, u32, u32)>,
    /// per-case wall-clock limit (properties about termination); None = no watchdog
    pub case_timeout_s: Option<f64>,
    /// run cases on a worker thread of a one-thread global rayon pool (fast path for tensor code,
    /// see `in_pool`). Must be off for properties whose cases block on other threads that need
    /// the global pool themselves (progress mode, concurrent companion samplers): those run on a
    /// plain thread with `plain_pool_threads` free global workers.
    pub use_pool_thread: bool,
    pub plain_pool_threads: usize,
    /// proptest shrink budget of the following sections (0 for cases that cost minutes each)
    pub max_shrink_iters: u32,
    pub replay_path: Option<String>,
    pub unconfirmed_timeouts: u32,
    /// shards that lost their process to a per-case timeout that did not reproduce and were run again
    pub slow_shards_rerun: u32,
    start: Instant,
}

/// what a shard child process prints on stdout (one line, prefixed `SHARD-RESULT `)
#[derive(Serialize, Deserialize)]
struct ShardResult {
    cov: Cov,
    fail: Option<(Value, Fail)>,
    known_seen: Vec<String>,
}

/// Runs `f` on a worker thread of the global rayon pool. burn's ndarray backend parallelises its
/// kernels with rayon; called from a non-pool thread every tiny kernel is a cross-thread hand-off
/// (futex wake + wait), called from a pool thread it runs inline. With one-thread pools in
/// separate processes the samplers scale linearly over the 16 cores (measured: 60 us vs 1-3 ms
/// per leapfrog step).
pub fn in_pool<R: Send>(f: impl FnOnce() -> R + Send) -> R {
    let mut out = None;
    rayon::scope(|s| s.spawn(|_| out = Some(f())));
    out.expect("pool task did not run")
}

/// per-case watchdog (only for properties that set a case timeout): the case being executed
static CASE_WATCH: std::sync::Mutex<Option<(Instant, String)>> = std::sync::Mutex::new(None);
static WATCH_ON: std::sync::atomic::AtomicBool = std::sync::atomic::AtomicBool::new(false);
/// current limit in milliseconds (a property may change it between sections)
static WATCH_LIMIT_MS: std::sync::atomic::AtomicU64 = std::sync::atomic::AtomicU64::new(0);

/// Starts the monitor thread of this process: if one case runs longer than `limit_s` the process
/// prints `SHARD-HANG <case json>` and exits with status 3 (a hang cannot be caught in-process).
fn arm_watchdog(limit_s: f64, replay_of: Option<(String, String)>) {
    WATCH_LIMIT_MS.store((limit_s * 1000.0) as u64, std::sync::atomic::Ordering::SeqCst);
    if WATCH_ON.swap(true, std::sync::atomic::Ordering::SeqCst) {
        return;
    }
    std::thread::spawn(move || loop {
        std::thread::sleep(std::time::Duration::from_millis(200));
        let g = CASE_WATCH.lock().unwrap();
        let limit_s = WATCH_LIMIT_MS.load(std::sync::atomic::Ordering::SeqCst) as f64 / 1000.0;
        if let Some((t0, js)) = g.as_ref() {
            if t0.elapsed().as_secs_f64() > limit_s {
                println!("SHARD-HANG {js}");
                if let Some((id, path)) = &replay_of {
                    if std::env::var("VERIF_HANG_CONFIRM").is_err() {
                        println!("FAIL property={id} sig=[hang] the call did not return within {limit_s:.0} s");
                        println!("VIOLATION property={id} replay={path}");
                        std::process::exit(1);
                    }
                }
                std::process::exit(3);
            }
        }
    });
}

/// description of the most recent panic in this process (panics of worker threads of the code
/// under test must be visible to the thread that runs the check, hence not thread-local)
static LAST_PANIC: std::sync::Mutex<Option<String>> = std::sync::Mutex::new(None);

pub fn install_quiet_panic_hook() {
    std::panic::set_hook(Box::new(|info| {
        let loc = info
            .location()
            .map(|l| format!("{}:{}", l.file(), l.line()))
            .unwrap_or_default();
        let msg = if let Some(s) = info.payload().downcast_ref::<&str>() {
            s.to_string()
        } else if let Some(s) = info.payload().downcast_ref::<String>() {
            s.clone()
        } else {
            "<non-string panic>".to_string()
        };
        if let Ok(mut g) = LAST_PANIC.lock() {
            // keep the first panic of a cascade (later ones are usually "thread panicked" echoes)
            if g.is_none() || !msg.contains("Expected") {
                *g = Some(format!("{msg} @ {loc}"));
            }
        }
        if std::env::var("VERIF_SHOW_PANICS").is_ok() {
            eprintln!("[panic] {msg} @ {loc}");
        }
    }));
}

pub fn take_last_panic() -> String {
    LAST_PANIC.lock().ok().and_then(|mut g| g.take()).unwrap_or_else(|| "<unknown panic>".into())
}

/// Run `f`, turning a panic into `Err(description)`.
pub fn no_panic<R>(f: impl FnOnce() -> R) -> Result<R, String> {
    match catch_unwind(AssertUnwindSafe(f)) {
        Ok(r) => Ok(r),
        Err(_) => Err(take_last_panic()),
    }
}

fn panic_sig(msg: &str) -> String {
    // stable part of a panic description: the source location (file:line) if it is in /repo
    let loc = msg.rsplit(" @ ").next().unwrap_or("");
    let file = loc.rsplit('/').next().unwrap_or(loc);
    format!("panic {}", file)
}

impl Ctx {
    pub fn new(id: &str, tier: Tier, seed: u64, verif_dir: PathBuf) -> Self {
        let known: KnownFindings = std::fs::read_to_string(verif_dir.join("known_findings.json"))
            .ok()
            .and_then(|s| serde_json::from_str(&s).ok())
            .unwrap_or_default();
        Ctx {
            id: id.to_string(),
            tier,
            seed,
            verif_dir,
            known,
            sections: vec![],
            violations: vec![],
            known_hits: BTreeMap::new(),
            assumptions: vec![],
            rule: String::new(),
            replay: None,
            replay_hit: false,
            shard: None,
            case_timeout_s: None,
            use_pool_thread: true,
            plain_pool_threads: 3,
            max_shrink_iters: 3000,
            replay_path: None,
            unconfirmed_timeouts: 0,
            slow_shards_rerun: 0,
            start: Instant::now(),
        }
    }

    /// Cases of the following sections are supervised: a case that does not return within
    /// `limit_s` is re-run alone with twice the limit; if it hangs again that is a violation
    /// (signature `hang`), a single unconfirmed timeout makes the run exit with status 2.
    pub fn set_case_timeout(&mut self, limit_s: f64) {
        self.case_timeout_s = Some(limit_s);
        let scale: f64 = std::env::var("VERIF_TIMEOUT_SCALE").ok().and_then(|v| v.parse().ok()).unwrap_or(1.0);
        if self.shard.is_some() {
            arm_watchdog(limit_s * scale, None);
        } else if self.replay.is_some() {
            let scale = if std::env::var("VERIF_HANG_CONFIRM").is_ok() { scale } else { 2.0 };
            arm_watchdog(limit_s * scale, Some((self.id.clone(), self.replay_path.clone().unwrap_or_default())));
        }
    }

    pub fn assume(&mut self, s: &str) {
        self.assumptions.push(s.to_string());
    }

    fn is_known(&self, sig: &str) -> Option<String> {
        self.known
            .known
            .iter()
            .find(|k| k.property == self.id && k.signature == sig)
            .map(|k| k.what.clone())
    }

    fn section_seed(&self, section: &str, shard: u64) -> [u8; 32] {
        let mut out = [0u8; 32];
        let mut h = std::collections::hash_map::DefaultHasher::new();
        (self.id.as_str(), section, self.seed, shard).hash(&mut h);
        let mut x = h.finish();
        for chunk in out.chunks_mut(8) {
            // splitmix64
            x = x.wrapping_add(0x9E37_79B9_7F4A_7C15);
            let mut z = x;
            z = (z ^ (z >> 30)).wrapping_mul(0xBF58_476D_1CE4_E5B9);
            z = (z ^ (z >> 27)).wrapping_mul(0x94D0_49BB_1331_11EB);
            z ^= z >> 31;
            chunk.copy_from_slice(&z.to_le_bytes());
        }
        out
    }

    /// A deterministic sub-seed for non-proptest randomness of a section.
    pub fn derive_seed(&self, section: &str, k: u64) -> u64 {
        let s = self.section_seed(section, k);
        u64::from_le_bytes(s[0..8].try_into().unwrap())
    }

    fn write_replay<C: Serialize>(&mut self, section: &str, case: &C, fail: &Fail) -> PathBuf {
        let dir = self.verif_dir.join("replays");
        let _ = std::fs::create_dir_all(&dir);
        let path = dir.join(format!(
            "{}-{}-{}-{}.json",
            self.id,
            section,
            self.seed,
            self.violations.len()
        ));
        let rf = ReplayFile {
            property: self.id.clone(),
            section: section.to_string(),
            case: serde_json::to_value(case).unwrap_or(Value::Null),
            message: fail.msg.clone(),
            signature: fail.sig.clone(),
            seed: self.seed,
        };
        let _ = std::fs::write(&path, serde_json::to_string_pretty(&rf).unwrap());
        path
    }

    /// Handles a (shrunk) failure: known finding or violation.
    fn report_failure<C: Serialize>(&mut self, section: &str, case: &C, fail: &Fail) {
        if let Some(what) = self.is_known(&fail.sig) {
            self.known_hits.insert(fail.sig.clone(), what);
        } else {
            let path = self.write_replay(section, case, fail);
            println!(
                "FAIL property={} section={} sig=[{}] {}",
                self.id, section, fail.sig, fail.msg
            );
            println!("VIOLATION property={} replay={}", self.id, path.display());
            self.violations.push((fail.sig.clone(), path));
        }
    }

    /// Run one section: regress files first, then `cases` generated cases split over `shards`
    /// threads. `check` must be a pure function of the case.
    pub fn section<C, F>(
        &mut self,
        name: &str,
        rule: &str,
        cases: u32,
        shards: u32,
        make_strategy: impl Fn() -> BoxedStrategy<C> + Sync,
        check: F,
    ) where
        C: Serialize + DeserializeOwned + std::fmt::Debug + Clone + Send + Sync + 'static,
        F: Fn(&C, &mut Cov) -> CheckResult + Sync,
    {
        // ---- replay mode: only the matching section runs, on the stored case ----
        if let Some(rf) = self.replay.clone() {
            if rf.section != name {
                return;
            }
            self.replay_hit = true;
            let case: C = match serde_json::from_value(rf.case.clone()) {
                Ok(c) => c,
                Err(e) => {
                    eprintln!("replay: cannot decode case for section {name}: {e}");
                    std::process::exit(2);
                }
            };
            let mut cov = Cov::new();
            cov.evaluations += 1;
            let r = {
                let (check, case, cov) = (&check, &case, &mut cov);
                if self.use_pool_thread {
                    in_pool(move || run_checked(check, case, cov))
                } else {
                    run_checked(check, case, cov)
                }
            };
            if let Err(f) = r {
                self.report_failure(name, &case, &f);
            } else {
                println!("replay: property={} section={} passed", self.id, name);
            }
            self.sections.push(SectionReport {
                wall_s: 0.0,
                name: name.into(),
                cov,
                rule: rule.into(),
            });
            return;
        }

        let known_sigs: Vec<String> = self
            .known
            .known
            .iter()
            .filter(|k| k.property == self.id)
            .map(|k| k.signature.clone())
            .collect();

        // ---- child-process mode: one shard of one section ----
        if let Some((sec, idx, n)) = self.shard.clone() {
            if sec != name {
                return;
            }
            let seed = self.section_seed(name, idx as u64);
            let stop = std::sync::atomic::AtomicBool::new(false);
            let (cov, fail, known_seen) = {
                let (check, make_strategy, known_sigs, stop) = (&check, &make_strategy, &known_sigs, &stop);
                let msi = self.max_shrink_iters;
                if self.use_pool_thread {
                    in_pool(move || run_shard(n, seed, make_strategy(), check, known_sigs, stop, msi))
                } else {
                    run_shard(n, seed, make_strategy(), check, known_sigs, stop, msi)
                }
            };
            let res = ShardResult {
                cov,
                fail: fail.map(|(c, f)| (serde_json::to_value(&c).unwrap_or(Value::Null), f)),
                known_seen,
            };
            println!("SHARD-RESULT {}", serde_json::to_string(&res).unwrap());
            std::process::exit(0);
        }

        let mut total = Cov::new();
        let sec_start = Instant::now();

        // ---- committed regression inputs for this section ----
        let rdir = self.verif_dir.join("regress").join(&self.id);
        if let Ok(rd) = std::fs::read_dir(&rdir) {
            let mut files: Vec<_> = rd.filter_map(|e| e.ok()).map(|e| e.path()).collect();
            files.sort();
            for p in files {
                let Ok(txt) = std::fs::read_to_string(&p) else {
                    continue;
                };
                let Ok(rf) = serde_json::from_str::<ReplayFile>(&txt) else {
                    continue;
                };
                if rf.section != name {
                    continue;
                }
                let Ok(case) = serde_json::from_value::<C>(rf.case.clone()) else {
                    eprintln!("regress file {} does not decode (stale format?)", p.display());
                    continue;
                };
                total.evaluations += 1;
                total.class("regress-file");
                let r = {
                    let (check, case, total) = (&check, &case, &mut total);
                    if self.use_pool_thread {
                        in_pool(move || run_checked(check, case, total))
                    } else {
                        run_checked(check, case, total)
                    }
                };
                if let Err(f) = r {
                    self.report_failure(name, &case, &f);
                }
            }
        }

        // ---- generated cases: one child process per shard (see `in_pool`) ----
        let shards = shards.max(1).min(cases.max(1));
        let per = cases / shards;
        let extra = cases % shards;
        let inproc = std::env::var("VERIF_INPROC").is_ok();
        let mut results: Vec<(Cov, Option<(Value, Fail)>, Vec<String>)> = vec![];
        if inproc {
            let stop = std::sync::atomic::AtomicBool::new(false);
            for sh in 0..shards {
                let n = per + if sh < extra { 1 } else { 0 };
                let seed = self.section_seed(name, sh as u64);
                let (cov, fail, ks) = {
                    let (check, make_strategy, known_sigs, stop) = (&check, &make_strategy, &known_sigs, &stop);
                    let msi = self.max_shrink_iters;
                    in_pool(move || run_shard(n, seed, make_strategy(), check, known_sigs, stop, msi))
                };
                results.push((cov, fail.map(|(c, f)| (serde_json::to_value(&c).unwrap_or(Value::Null), f)), ks));
            }
        } else {
            // /proc/self/exe stays valid when the file on disk is replaced by a concurrent rebuild
            let proc_exe = std::path::PathBuf::from("/proc/self/exe");
            let exe = if proc_exe.exists() { proc_exe } else { std::env::current_exe().expect("current_exe") };
            let mut children = vec![];
            for sh in 0..shards {
                let n = per + if sh < extra { 1 } else { 0 };
                let child = std::process::Command::new(&exe)
                    .arg(&self.id)
                    .arg("--tier")
                    .arg(self.tier.name())
                    .arg("--shard")
                    .arg(name)
                    .arg(sh.to_string())
                    .arg(n.to_string())
                    .env("VERIF_SEED", self.seed.to_string())
                    .env("VERIF_DIR", &self.verif_dir)
                    .env("RAYON_NUM_THREADS", if self.use_pool_thread { "1".to_string() } else { self.plain_pool_threads.to_string() })
                    .stdin(std::process::Stdio::null())
                    .stdout(std::process::Stdio::piped())
                    .stderr(std::process::Stdio::inherit())
                    .spawn();
                match child {
                    Ok(c) => children.push(c),
                    Err(e) => {
                        eprintln!("INFRASTRUCTURE: cannot spawn shard process: {e}");
                        std::process::exit(2);
                    }
                }
            }
            let mut hang_confirmed = false;
            for (sh, c) in children.into_iter().enumerate() {
                let out = c.wait_with_output().expect("wait for shard");
                let txt = String::from_utf8_lossy(&out.stdout);
                let line = txt.lines().find(|l| l.starts_with("SHARD-RESULT "));
                let hang = txt.lines().find(|l| l.starts_with("SHARD-HANG "));
                if let (None, Some(_)) = (line, hang) {
                    if hang_confirmed {
                        // one confirmed hang per section is enough (each confirmation costs 2x the limit)
                        continue;
                    }
                }
                if let (None, Some(h)) = (line, hang) {
                    // a case did not return in time: confirm it alone with twice the limit
                    let case_v: Value = serde_json::from_str(&h["SHARD-HANG ".len()..]).unwrap_or(Value::Null);
                    let f = Fail::new("hang", format!("the call did not return within the time limit ({} s; confirmed alone with twice the limit)", self.case_timeout_s.unwrap_or(0.0)));
                    let tmp = self.verif_dir.join("replays");
                    let _ = std::fs::create_dir_all(&tmp);
                    let cand = tmp.join(format!("{}-{}-hang-candidate-{}.json", self.id, name, sh));
                    let rf = ReplayFile {
                        property: self.id.clone(),
                        section: name.to_string(),
                        case: case_v.clone(),
                        message: f.msg.clone(),
                        signature: f.sig.clone(),
                        seed: self.seed,
                    };
                    let _ = std::fs::write(&cand, serde_json::to_string_pretty(&rf).unwrap());
                    let st = std::process::Command::new(&exe)
                        .arg(&self.id)
                        .arg("--replay")
                        .arg(&cand)
                        .env("VERIF_HANG_CONFIRM", "1")
                        .env("VERIF_TIMEOUT_SCALE", "2")
                        .env("VERIF_DIR", &self.verif_dir)
                        .env("RAYON_NUM_THREADS", if self.use_pool_thread { "1".to_string() } else { self.plain_pool_threads.to_string() })
                        .stdout(std::process::Stdio::null())
                        .status();
                    let _ = std::fs::remove_file(&cand);
                    if matches!(st.map(|s| s.code()), Ok(Some(3))) {
                        hang_confirmed = true;
                        results.push((Cov::new(), Some((case_v, f)), vec![]));
                    } else {
                        // The case returns when run alone: the machine was busy. The shard's other
                        // cases were lost with its process, so the whole shard is run again, alone
                        // and with four times the limit; only if that fails too is the run
                        // inconclusive (status 2).
                        eprintln!("NOTE: a case of section {name} exceeded its time limit once but not when re-run alone (busy machine?); re-running shard {sh} with 4x the limit");
                        let n = per + if (sh as u64) < (extra as u64) { 1 } else { 0 };
                        let again = std::process::Command::new(&exe)
                            .arg(&self.id)
                            .arg("--tier")
                            .arg(self.tier.name())
                            .arg("--shard")
                            .arg(name)
                            .arg(sh.to_string())
                            .arg(n.to_string())
                            .env("VERIF_SEED", self.seed.to_string())
                            .env("VERIF_DIR", &self.verif_dir)
                            .env("VERIF_TIMEOUT_SCALE", "4")
                            .env("RAYON_NUM_THREADS", if self.use_pool_thread { "1".to_string() } else { self.plain_pool_threads.to_string() })
                            .stdin(std::process::Stdio::null())
                            .stderr(std::process::Stdio::inherit())
                            .output();
                        let parsed = again.ok().and_then(|o| {
                            let t = String::from_utf8_lossy(&o.stdout).to_string();
                            t.lines().find(|l| l.starts_with("SHARD-RESULT ")).and_then(|l| serde_json::from_str::<ShardResult>(&l["SHARD-RESULT ".len()..]).ok())
                        });
                        match parsed {
                            Some(r) => {
                                self.slow_shards_rerun += 1;
                                results.push((r.cov, r.fail, r.known_seen));
                            }
                            None => {
                                eprintln!("INFRASTRUCTURE: shard {sh} of section {name} did not finish within 4x the per-case limit either (unconfirmed timeout)");
                                self.unconfirmed_timeouts += 1;
                            }
                        }
                    }
                    continue;
                }
                match line.and_then(|l| serde_json::from_str::<ShardResult>(&l["SHARD-RESULT ".len()..]).ok()) {
                    Some(r) => results.push((r.cov, r.fail, r.known_seen)),
                    None => {
                        eprintln!(
                            "INFRASTRUCTURE: shard {sh} of section {name} ended without a result (status {:?}); its output:\n{}",
                            out.status.code(),
                            txt.lines().rev().take(15).collect::<Vec<_>>().join("\n")
                        );
                        std::process::exit(2);
                    }
                }
            }
        }

        let mut first_fail: Option<(Value, Fail)> = None;
        for (cov, fail, known_seen) in results {
            total.merge(cov);
            for sig in known_seen {
                if let Some(w) = self.is_known(&sig) {
                    self.known_hits.insert(sig, w);
                }
            }
            if first_fail.is_none() {
                first_fail = fail;
            }
        }
        if let Some((case, fail)) = first_fail {
            self.report_failure(name, &case, &fail);
        }
        if std::env::var("VERIF_VERBOSE").is_ok() {
            eprintln!("[section {name}] {} evaluations in {:.1}s", total.evaluations, sec_start.elapsed().as_secs_f64());
        }
        self.sections.push(SectionReport {
            wall_s: sec_start.elapsed().as_secs_f64(),
            name: name.into(),
            cov: total,
            rule: rule.into(),
        });
    }

    /// Write the evidence file, print summary lines and return the process exit code.
    pub fn finish(&mut self) -> i32 {
        if self.replay.is_some() && !self.replay_hit {
            eprintln!("replay: no section of {} matches the replay file", self.id);
            return 2;
        }
        let mut evaluations = 0u64;
        let mut nontrivial: HashSet<u64> = HashSet::new();
        let mut samples: Vec<Value> = vec![];
        let mut sections = serde_json::Map::new();
        let mut ambiguous = 0;
        let mut excluded = 0;
        for s in &self.sections {
            evaluations += s.cov.evaluations;
            for h in &s.cov.nontrivial {
                // fingerprints are per section
                let mut st = std::collections::hash_map::DefaultHasher::new();
                (s.name.as_str(), *h).hash(&mut st);
                nontrivial.insert(st.finish());
            }
            ambiguous += s.cov.ambiguous;
            excluded += s.cov.excluded_known;
            for v in s.cov.samples.iter().take(2) {
                samples.push(json!({"section": s.name, "case": v}));
            }
            sections.insert(
                s.name.clone(),
                json!({
                    "rule": s.rule,
                    "wall_s": s.wall_s,
                    "evaluations": s.cov.evaluations,
                    "distinct_nontrivial": s.cov.nontrivial.len(),
                    "classes": s.cov.classes,
                    "ambiguous_skipped": s.cov.ambiguous,
                    "excluded_known_finding_cases": s.cov.excluded_known,
                    "notes": s.cov.notes,
                    "observed_maxima": s.cov.maxima,
                }),
            );
        }
        for (sig, what) in &self.known_hits {
            println!("KNOWN-FINDING: property={} [{}] {}", self.id, sig, what);
        }
        let ev = json!({
            "property_id": self.id,
            "tier": self.tier.name(),
            "seed": self.seed,
            "level": "exploration",
            "coverage": {
                "evaluations": evaluations,
                "distinct_nontrivial": nontrivial.len(),
                "rule": self.rule,
                "samples": samples,
                "ambiguous_skipped": ambiguous,
                "excluded_known_finding_cases": excluded,
                "sections": sections,
                "exhaustive": false,
                "shards_rerun_after_unreproduced_timeout": self.slow_shards_rerun,
                "unconfirmed_timeouts": self.unconfirmed_timeouts,
            },
            "assumptions": self.assumptions,
            "wall_s": self.start.elapsed().as_secs_f64(),
            "violations": self.violations.len(),
            "known_findings_seen": self.known_hits.keys().collect::<Vec<_>>(),
        });
        if self.replay.is_none() {
            let dir = self.verif_dir.join("evidence");
            let _ = std::fs::create_dir_all(&dir);
            let path = dir.join(format!("{}.json", self.id));
            if let Err(e) = std::fs::write(&path, serde_json::to_string_pretty(&ev).unwrap()) {
                eprintln!("cannot write evidence file {}: {e}", path.display());
                return 2;
            }
        }
        println!(
            "SUMMARY property={} tier={} seed={} evaluations={} distinct_nontrivial={} ambiguous={} violations={} wall_s={:.1}",
            self.id,
            self.tier.name(),
            self.seed,
            evaluations,
            nontrivial.len(),
            ambiguous,
            self.violations.len(),
            self.start.elapsed().as_secs_f64()
        );
        if !self.violations.is_empty() {
            1
        } else if self.unconfirmed_timeouts > 0 {
            2
        } else {
            0
        }
    }
}

fn run_checked<C, F>(check: &F, case: &C, cov: &mut Cov) -> CheckResult
where
    C: Serialize,
    F: Fn(&C, &mut Cov) -> CheckResult,
{
    let watched = WATCH_ON.load(std::sync::atomic::Ordering::Relaxed);
    if watched {
        *CASE_WATCH.lock().unwrap() = Some((Instant::now(), serde_json::to_string(case).unwrap_or_default()));
    }
    let r = run_checked_inner(check, case, cov);
    if watched {
        *CASE_WATCH.lock().unwrap() = None;
    }
    r
}

fn run_checked_inner<C, F>(check: &F, case: &C, cov: &mut Cov) -> CheckResult
where
    F: Fn(&C, &mut Cov) -> CheckResult,
{
    match catch_unwind(AssertUnwindSafe(|| check(case, cov))) {
        Ok(r) => r,
        Err(_) => {
            let msg = take_last_panic();
            Err(Fail::new(panic_sig(&msg), format!("panicked: {msg}")))
        }
    }
}

fn run_shard<C, F>(
    cases: u32,
    seed: [u8; 32],
    strategy: BoxedStrategy<C>,
    check: &F,
    known_sigs: &[String],
    stop: &std::sync::atomic::AtomicBool,
    max_shrink_iters: u32,
) -> (Cov, Option<(C, Fail)>, Vec<String>)
where
    C: Serialize + std::fmt::Debug + Clone + 'static,
    F: Fn(&C, &mut Cov) -> CheckResult,
{
    let cov = RefCell::new(Cov::new());
    let known_seen: RefCell<Vec<String>> = RefCell::new(vec![]);
    if cases == 0 {
        return (cov.into_inner(), None, vec![]);
    }
    let config = Config {
        cases,
        failure_persistence: None,
        max_shrink_iters,
        max_global_rejects: 1 << 20,
        max_local_rejects: 1 << 20,
        ..Config::default()
    };
    let rng = TestRng::from_seed(RngAlgorithm::ChaCha, &seed);
    let mut runner = TestRunner::new_with_rng(config, rng);
    let last_fail: RefCell<Option<Fail>> = RefCell::new(None);
    let i_failed = std::cell::Cell::new(false);
    let res = runner.run(&strategy, |case: C| {
        use std::sync::atomic::Ordering;
        if !i_failed.get() && stop.load(Ordering::Relaxed) {
            // another shard already found a failure: finish quickly without evaluating
            return Ok(());
        }
        let mut c = cov.borrow_mut();
        if !c.frozen {
            c.evaluations += 1;
        }
        let slow_log = std::env::var("VERIF_SLOW_MS").ok().and_then(|v| v.parse::<u128>().ok());
        if slow_log.is_some() && std::env::var("VERIF_SLOW_PRE").is_ok() {
            eprintln!("[case-start] {}", serde_json::to_string(&case).unwrap_or_default());
        }
        let t_case = Instant::now();
        let r = run_checked(check, &case, &mut c);
        if slow_log.is_some() && std::env::var("VERIF_SLOW_PRE").is_ok() {
            eprintln!("[case-end] {}", serde_json::to_string(&case).unwrap_or_default());
        }
        if let Some(ms) = slow_log {
            if t_case.elapsed().as_millis() > ms {
                eprintln!("[slow case {} ms] {}", t_case.elapsed().as_millis(), serde_json::to_string(&case).unwrap_or_default());
            }
        }
        match r {
            Ok(()) => {
                if !c.frozen && c.samples.len() < c.sample_budget {
                    // keep the first few cases as samples (pass cases of the real run)
                    let v = serde_json::to_value(&case).unwrap_or(Value::Null);
                    let txt = v.to_string();
                    if txt.len() < 4000 {
                        c.samples.push(v);
                    }
                }
                Ok(())
            }
            Err(f) => {
                if known_sigs.iter().any(|s| *s == f.sig) {
                    // known finding: excluded by construction, counted, search continues
                    if !c.frozen {
                        c.excluded_known += 1;
                    }
                    let mut ks = known_seen.borrow_mut();
                    if !ks.contains(&f.sig) {
                        ks.push(f.sig.clone());
                    }
                    return Ok(());
                }
                c.frozen = true;
                i_failed.set(true);
                stop.store(true, Ordering::Relaxed);
                *last_fail.borrow_mut() = Some(f.clone());
                Err(TestCaseError::fail(f.msg))
            }
        }
    });
    let fail = match res {
        Ok(()) => None,
        Err(TestError::Fail(_, value)) => {
            // re-run the minimal case to get its own signature/message
            let mut scratch = Cov::new();
            scratch.frozen = true;
            let f = match run_checked(check, &value, &mut scratch) {
                Err(f) => f,
                Ok(()) => last_fail
                    .borrow()
                    .clone()
                    .unwrap_or_else(|| Fail::new("flaky", "failure did not reproduce on re-run")),
            };
            Some((value, f))
        }
        Err(TestError::Abort(reason)) => {
            eprintln!("proptest aborted: {reason}");
            std::process::exit(2);
        }
    };
    (cov.into_inner(), fail, known_seen.into_inner())
}

/// Convenience: boxed strategy from any strategy.
pub fn bx<S: Strategy + 'static>(s: S) -> BoxedStrategy<S::Value> {
    s.boxed()
}

use mcmc_verif::engine::{self, Ctx, ReplayFile, Tier};
use std::path::PathBuf;

fn usage() -> ! {
    eprintln!("usage: mcmc-verif <C01..C18> [--tier quick|thorough] [--replay <file>]");
    std::process::exit(2)
}

fn main() {
    let args: Vec<String> = std::env::args().skip(1).collect();
    if args.is_empty() {
        usage();
    }
    // internal child mode (watchdog-supervised cases of C10/C14)
    if args[0] == "--child" {
        engine::install_quiet_panic_hook();
        let code = mcmc_verif::props::child_main(&args[1..]);
        std::process::exit(code);
    }
    if args[0] == "BENCH2" {
        mcmc_verif::props::bench2();
        return;
    }
    if args[0] == "BENCH" {
        mcmc_verif::props::bench();
        return;
    }
    let id = args[0].clone();
    let mut tier = match std::env::var("VERIF_TIER").as_deref() {
        Ok("thorough") => Tier::Thorough,
        _ => Tier::Quick,
    };
    let mut replay: Option<String> = None;
    let mut i = 1;
    while i < args.len() {
        match args[i].as_str() {
            "--tier" => {
                i += 1;
                tier = match args.get(i).map(|s| s.as_str()) {
                    Some("quick") => Tier::Quick,
                    Some("thorough") => Tier::Thorough,
                    _ => usage(),
                };
            }
            "--replay" => {
                i += 1;
                replay = Some(args.get(i).cloned().unwrap_or_else(|| usage()));
            }
            _ => usage(),
        }
        i += 1;
    }
    let seed: u64 = std::env::var("VERIF_SEED")
        .ok()
        .and_then(|s| s.trim().parse::<i128>().ok())
        .map(|v| v as u64)
        .unwrap_or(0);
    let verif_dir = PathBuf::from(std::env::var("VERIF_DIR").unwrap_or_else(|_| "/verif".into()));

    engine::install_quiet_panic_hook();
    if let Err(e) = engine::xo::self_test() {
        eprintln!("infrastructure self-test failed: {e}");
        std::process::exit(2);
    }
    let mut ctx = Ctx::new(&id, tier, seed, verif_dir);
    if let Some(p) = replay {
        let txt = std::fs::read_to_string(&p).unwrap_or_else(|e| {
            eprintln!("cannot read replay file {p}: {e}");
            std::process::exit(2)
        });
        let rf: ReplayFile = serde_json::from_str(&txt).unwrap_or_else(|e| {
            eprintln!("cannot parse replay file {p}: {e}");
            std::process::exit(2)
        });
        if rf.property != id {
            eprintln!("replay file is for property {} not {}", rf.property, id);
            std::process::exit(2);
        }
        ctx.replay = Some(rf);
    }
    if !mcmc_verif::props::run(&id, &mut ctx) {
        eprintln!("unknown property id {id}");
        std::process::exit(2);
    }
    let code = ctx.finish();
    std::process::exit(code);
}

use mcmc_verif::engine::{self, Ctx, ReplayFile, Tier};
use std::path::PathBuf;

fn usage() -> ! {
    eprintln!("usage: mcmc-verif <C01..C18> [--tier quick|thorough] [--replay <file>]");
    std::process::exit(2)
}

fn main() {
    let args: Vec<String> = std::env::args().skip(1).collect();
    if args.is_empty() {
        usage();
    }
    // internal child mode (watchdog-supervised cases of C10/C14)
    if args[0] == "--child" {
        engine::install_quiet_panic_hook();
        let code = mcmc_verif::props::child_main(&args[1..]);
        std::process::exit(code);
    }
    if args[0] == "BENCH3" {
        mcmc_verif::props::bench3();
        return;
    }
    if args[0] == "BENCH4" {
        mcmc_verif::props::bench4();
        return;
    }
    if args[0] == "BENCH2" {
        mcmc_verif::props::bench2();
        return;
    }
    if args[0] == "BENCH" {
        mcmc_verif::props::bench();
        return;
    }
    if args[0] == "BENCH_16_IN_POOL" {
        rayon::scope(|s| {
            for _ in 0..16 {
                s.spawn(|_| mcmc_verif::props::bench());
            }
        });
        return;
    }
    if args[0] == "BENCH_IN_POOL" {
        rayon::scope(|s| s.spawn(|_| mcmc_verif::props::bench()));
        return;
    }
    let id = args[0].clone();
    let mut tier = match std::env::var("VERIF_TIER").as_deref() {
        Ok("thorough") => Tier::Thorough,
        _ => Tier::Quick,
    };
    let mut replay: Option<String> = None;
    let mut shard: Option<(String, u32, u32)> = None;
    let mut i = 1;
    while i < args.len() {
        match args[i].as_str() {
            "--tier" => {
                i += 1;
                tier = match args.get(i).map(|s| s.as_str()) {
                    Some("quick") => Tier::Quick,
                    Some("thorough") => Tier::Thorough,
                    _ => usage(),
                };
            }
            "--shard" => {
                let sec = args.get(i + 1).cloned().unwrap_or_else(|| usage());
                let idx = args.get(i + 2).and_then(|s| s.parse().ok()).unwrap_or_else(|| usage());
                let n = args.get(i + 3).and_then(|s| s.parse().ok()).unwrap_or_else(|| usage());
                shard = Some((sec, idx, n));
                i += 3;
            }
            "--replay" => {
                i += 1;
                replay = Some(args.get(i).cloned().unwrap_or_else(|| usage()));
            }
            _ => usage(),
        }
        i += 1;
    }
    let seed: u64 = std::env::var("VERIF_SEED")
        .ok()
        .and_then(|s| s.trim().parse::<i128>().ok())
        .map(|v| v as u64)
        .unwrap_or(0);
    let verif_dir = PathBuf::from(std::env::var("VERIF_DIR").unwrap_or_else(|_| "/verif".into()));

    engine::install_quiet_panic_hook();
    if let Err(e) = engine::xo::self_test() {
        eprintln!("infrastructure self-test failed: {e}");
        std::process::exit(2);
    }
    let mut ctx = Ctx::new(&id, tier, seed, verif_dir);
    ctx.shard = shard;
    if let Some(p) = replay {
        let txt = std::fs::read_to_string(&p).unwrap_or_else(|e| {
            eprintln!("cannot read replay file {p}: {e}");
            std::process::exit(2)
        });
        let rf: ReplayFile = serde_json::from_str(&txt).unwrap_or_else(|e| {
            eprintln!("cannot parse replay file {p}: {e}");
            std::process::exit(2)
        });
        if rf.property != id {
            eprintln!("replay file is for property {} not {}", rf.property, id);
            std::process::exit(2);
        }
        ctx.replay = Some(rf);
        ctx.replay_path = Some(p.clone());
    }
    if !mcmc_verif::props::run(&id, &mut ctx) {
        eprintln!("unknown property id {id}");
        std::process::exit(2);
    }
    if ctx.shard.is_some() {
        eprintln!("shard mode: section not found");
        std::process::exit(2);
    }
    let code = ctx.finish();
    std::process::exit(code);
}

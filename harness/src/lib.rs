//! Property-based verification harness for mini-mcmc (see /verif/DESIGN.md).
#![allow(clippy::too_many_arguments, clippy::type_complexity, clippy::needless_range_loop)]

pub mod engine;
pub mod props;
pub mod refs;

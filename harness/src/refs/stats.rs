//! f64 reference implementations of the diagnostics (written from the property statements and
//! the Stan reference manual the module cites; shares no code with src/stats.rs).

/// data[chain][draw] for one parameter
pub type Chains = Vec<Vec<f64>>;

/// Split every chain into its first and last `n/2` draws (the middle draw of an odd-length
/// chain is dropped, as the library documents).
pub fn split_halves(chains: &Chains) -> Chains {
    let mut first = vec![];
    let mut second = vec![];
    for c in chains {
        let n = c.len();
        let h = n / 2;
        first.push(c[..h].to_vec());
        second.push(c[n - h..].to_vec());
    }
    // library order: all first halves, then all second halves
    first.extend(second);
    first
}

#[derive(Debug, Clone, Copy)]
pub struct WithinVar {
    pub w: f64,
    pub b: f64,
    pub var_plus: f64,
    pub m: usize,
    pub h: usize,
}

/// `unbiased`: within-chain variance with divisor h-1 (Stan) instead of h.
pub fn within_var(halves: &Chains, unbiased: bool) -> WithinVar {
    let m = halves.len();
    let h = halves[0].len();
    let hf = h as f64;
    let means: Vec<f64> = halves.iter().map(|c| c.iter().sum::<f64>() / hf).collect();
    let grand = means.iter().sum::<f64>() / m as f64;
    let b = hf / (m as f64 - 1.0) * means.iter().map(|x| (x - grand) * (x - grand)).sum::<f64>();
    let div = if unbiased { hf - 1.0 } else { hf };
    let w = halves
        .iter()
        .zip(&means)
        .map(|(c, mu)| c.iter().map(|x| (x - mu) * (x - mu)).sum::<f64>() / div)
        .sum::<f64>()
        / m as f64;
    let var_plus = (hf - 1.0) / hf * w + b / hf;
    WithinVar { w, b, var_plus, m, h }
}

pub fn split_rhat(chains: &Chains, unbiased: bool) -> f64 {
    let wv = within_var(&split_halves(chains), unbiased);
    (wv.var_plus / wv.w).sqrt()
}

/// autocovariance with 1/n normalisation, lags 0..n
pub fn autocov(x: &[f64]) -> Vec<f64> {
    let n = x.len();
    let mu = x.iter().sum::<f64>() / n as f64;
    let d: Vec<f64> = x.iter().map(|v| v - mu).collect();
    (0..n)
        .map(|lag| (0..n - lag).map(|t| d[t] * d[t + lag]).sum::<f64>() / n as f64)
        .collect()
}

/// multi-chain autocorrelation estimate rho_t = 1 - (W - mean_j acov_j(t)) / var+
pub fn rho(halves: &Chains, wv: &WithinVar) -> Vec<f64> {
    let h = wv.h;
    let acs: Vec<Vec<f64>> = halves.iter().map(|c| autocov(c)).collect();
    (0..h)
        .map(|t| {
            let avg = acs.iter().map(|a| a[t]).sum::<f64>() / acs.len() as f64;
            1.0 - (wv.w - avg) / wv.var_plus
        })
        .collect()
}

/// Geyer initial positive monotone sequence estimator: tau = -1 + 2 * sum of pair sums
/// P_k = rho_{2k} + rho_{2k+1}, cut at the first P_k <= 0, each P_k clamped to the running min.
/// `shift` is added to every rho (interval oracle). Returns (tau, number of pairs used,
/// smallest |P_k| met up to and including the cutting pair).
pub fn geyer_tau(rho: &[f64], shift: f64) -> (f64, usize, f64) {
    let mut sum = 0.0;
    let mut min = f64::INFINITY;
    let mut used = 0;
    let mut margin = f64::INFINITY;
    let mut k = 0;
    while 2 * k + 1 < rho.len() {
        let p = rho[2 * k] + rho[2 * k + 1] + 2.0 * shift;
        margin = margin.min(p.abs());
        if !(p > 0.0) {
            break;
        }
        let p = p.min(min);
        min = p;
        sum += p;
        used += 1;
        k += 1;
    }
    (-1.0 + 2.0 * sum, used, margin)
}

#[derive(Debug, Clone, Copy)]
pub struct EssRef {
    pub ess: f64,
    pub ess_lo: f64,
    pub ess_hi: f64,
    pub tau: f64,
    pub tau_lo: f64,
    pub tau_hi: f64,
    pub pairs: usize,
    pub margin: f64,
    pub mn: f64,
}

/// ESS = M*N/tau on the half-chains with an interval for a rho error of +-delta.
pub fn ess(chains: &Chains, unbiased: bool, delta: f64) -> EssRef {
    let halves = split_halves(chains);
    let wv = within_var(&halves, unbiased);
    let r = rho(&halves, &wv);
    let (tau, pairs, margin) = geyer_tau(&r, 0.0);
    let (tau_lo, _, _) = geyer_tau(&r, -delta);
    let (tau_hi, _, _) = geyer_tau(&r, delta);
    let mn = (wv.m * wv.h) as f64;
    EssRef {
        ess: mn / tau,
        // tau_lo <= tau <= tau_hi; if tau_lo <= 0 the upper ESS bound is unbounded
        ess_lo: mn / tau_hi,
        ess_hi: if tau_lo > 0.0 { mn / tau_lo } else { f64::INFINITY },
        tau,
        tau_lo,
        tau_hi,
        pairs,
        margin,
        mn,
    }
}

/// classical (non-split) potential scale reduction of complete chains:
/// sqrt(var+/W), W = mean unbiased within-chain variance, B/n = variance of chain means (m-1).
pub fn classical_rhat(chains: &Chains) -> f64 {
    let m = chains.len() as f64;
    let n = chains[0].len() as f64;
    let means: Vec<f64> = chains.iter().map(|c| c.iter().sum::<f64>() / n).collect();
    let grand = means.iter().sum::<f64>() / m;
    let b_over_n = means.iter().map(|x| (x - grand) * (x - grand)).sum::<f64>() / (m - 1.0);
    let w = chains
        .iter()
        .zip(&means)
        .map(|(c, mu)| c.iter().map(|x| (x - mu) * (x - mu)).sum::<f64>() / (n - 1.0))
        .sum::<f64>()
        / m;
    (((n - 1.0) / n * w + b_over_n) / w).sqrt()
}

pub fn mean(x: &[f64]) -> f64 {
    x.iter().sum::<f64>() / x.len() as f64
}
pub fn var_unbiased(x: &[f64]) -> f64 {
    let m = mean(x);
    x.iter().map(|v| (v - m) * (v - m)).sum::<f64>() / (x.len() as f64 - 1.0)
}

//! Independent f64 reference models.

//! Independent f64 reference models.
pub mod stats;

//! Independent f64 reference models.
pub mod nuts;
pub mod stats;

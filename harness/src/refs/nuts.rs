//! f64 reference of Hoffman & Gelman's Algorithm 6 (NUTS with dual averaging), written from the
//! paper's listing. The target is any closed-form (logp, grad) pair.

use rand::rngs::SmallRng;
use rand::Rng;

pub trait Density {
    fn logp(&self, x: &[f64]) -> f64;
    fn grad(&self, x: &[f64]) -> Vec<f64>;
}

impl Density for crate::props::targets::Spec {
    fn logp(&self, x: &[f64]) -> f64 {
        crate::props::targets::Spec::logp(self, x)
    }
    fn grad(&self, x: &[f64]) -> Vec<f64> {
        crate::props::targets::Spec::grad(self, x)
    }
}

#[derive(Debug, Clone)]
pub struct State {
    pub x: Vec<f64>,
    pub p: Vec<f64>,
    pub g: Vec<f64>,
    pub lp: f64,
    /// log p(x) - |p|^2/2
    pub joint: f64,
    /// integer time along the trajectory (0 = start, negative = backward)
    pub t: i64,
}

pub fn state0<D: Density>(d: &D, x: &[f64], p: &[f64]) -> State {
    let lp = d.logp(x);
    State {
        x: x.to_vec(),
        p: p.to_vec(),
        g: d.grad(x),
        lp,
        joint: lp - 0.5 * p.iter().map(|v| v * v).sum::<f64>(),
        t: 0,
    }
}

/// one velocity-Verlet step of (signed) size `eps`
pub fn leap<D: Density>(d: &D, s: &State, eps: f64) -> State {
    let n = s.x.len();
    let mut p: Vec<f64> = (0..n).map(|i| s.p[i] + 0.5 * eps * s.g[i]).collect();
    let x: Vec<f64> = (0..n).map(|i| s.x[i] + eps * p[i]).collect();
    let g = d.grad(&x);
    for i in 0..n {
        p[i] += 0.5 * eps * g[i];
    }
    let lp = d.logp(&x);
    let joint = lp - 0.5 * p.iter().map(|v| v * v).sum::<f64>();
    State {
        x,
        p,
        g,
        lp,
        joint,
        t: s.t + if eps >= 0.0 { 1 } else { -1 },
    }
}

/// (theta+ - theta-).r- >= 0 and (theta+ - theta-).r+ >= 0; also returns the smaller relative margin
pub fn no_uturn(minus: &State, plus: &State) -> (bool, f64) {
    let n = minus.x.len();
    let diff: Vec<f64> = (0..n).map(|i| plus.x[i] - minus.x[i]).collect();
    let dm: f64 = (0..n).map(|i| diff[i] * minus.p[i]).sum();
    let dp: f64 = (0..n).map(|i| diff[i] * plus.p[i]).sum();
    let nd = diff.iter().map(|v| v * v).sum::<f64>().sqrt();
    let nm = minus.p.iter().map(|v| v * v).sum::<f64>().sqrt();
    let np = plus.p.iter().map(|v| v * v).sum::<f64>().sqrt();
    // the difference of two positions carries their absolute rounding error: far from the origin
    // (|x| >> |x+ - x-|) the sign of the dot product is decided by that error, so the margin is
    // taken relative to the positions' own magnitude as well
    let nx = minus.x.iter().map(|v| v * v).sum::<f64>().sqrt() + plus.x.iter().map(|v| v * v).sum::<f64>().sqrt();
    let rel = |dot: f64, a: f64, b: f64| if a * b > 0.0 { (dot / (a * b)).abs() } else { 0.0 };
    let margin = rel(dm, nd + nx, nm).min(rel(dp, nd + nx, np));
    (dm >= 0.0 && dp >= 0.0, if margin.is_nan() { f64::INFINITY } else { margin })
}

#[derive(Debug, Clone)]
pub struct Leaf {
    pub state: State,
    pub admissible: bool,
}

#[derive(Debug, Clone)]
pub struct Tree {
    pub minus: State,
    pub plus: State,
    pub n: usize,
    pub s: bool,
    pub alpha: f64,
    pub n_alpha: usize,
    pub alpha_has_nan: bool,
    /// every leaf that was built, in build order
    pub leaves: Vec<Leaf>,
    /// the point the sub-tree proposes (only when selection uniforms were supplied)
    pub sel: Option<State>,
    /// smallest decision margin met (slice test, divergence test, U-turn tests), relative
    pub margin: f64,
    /// was a divergence (energy error > 1000) hit / did an inner sub-tree stop early
    pub diverged: bool,
    pub inner_stop: bool,
}

/// `uniforms`: source of the f64 merge uniforms (None => structure only)
pub fn build_tree<D: Density>(d: &D, edge: &State, logu: f64, v: i8, j: usize, eps: f64, joint0: f64, uniforms: &mut Option<&mut SmallRng>) -> Tree {
    if j == 0 {
        let s = leap(d, edge, v as f64 * eps);
        let joint = s.joint;
        let n = (logu < joint) as usize;
        let ok = (logu - 1000.0) < joint;
        let scale = joint.abs() + logu.abs() + 1.0;
        let margin = if joint.is_nan() {
            f64::INFINITY
        } else {
            ((joint - logu).abs() / scale).min((joint - (logu - 1000.0)).abs() / (scale + 1000.0))
        };
        let e = (joint - joint0).exp();
        // a NaN energy is a rejected point (the statement leaves min(1, exp(NaN)) undefined; the
        // comparison of the statistic is skipped for such trees, see `alpha_has_nan`)
        let alpha = if e.is_nan() { 0.0 } else { e.min(1.0) };
        return Tree {
            minus: s.clone(),
            plus: s.clone(),
            n,
            s: ok,
            alpha,
            n_alpha: 1,
            alpha_has_nan: e.is_nan(),
            leaves: vec![Leaf { state: s.clone(), admissible: n == 1 }],
            sel: Some(s),
            margin,
            diverged: !ok,
            inner_stop: false,
        };
    }
    let t1 = build_tree(d, edge, logu, v, j - 1, eps, joint0, uniforms);
    if !t1.s {
        let mut t = t1;
        t.inner_stop = true;
        return t;
    }
    let from = if v == -1 { t1.minus.clone() } else { t1.plus.clone() };
    let t2 = build_tree(d, &from, logu, v, j - 1, eps, joint0, uniforms);
    let (minus, plus) = if v == -1 { (t2.minus.clone(), t1.plus.clone()) } else { (t1.minus.clone(), t2.plus.clone()) };
    let mut sel = t1.sel.clone();
    if let Some(r) = uniforms.as_mut() {
        let u: f64 = r.random::<f64>();
        if u < (t2.n as f64 / (t1.n + t2.n).max(1) as f64) {
            sel = t2.sel.clone();
        }
    }
    let (nu, um) = no_uturn(&minus, &plus);
    let s = t1.s && t2.s && nu;
    // the U-turn margin only matters when both halves are alive
    let margin = t1.margin.min(t2.margin).min(if t2.s { um } else { f64::INFINITY });
    let mut leaves = t1.leaves;
    leaves.extend(t2.leaves);
    Tree {
        minus,
        plus,
        n: t1.n + t2.n,
        s,
        alpha: t1.alpha + t2.alpha,
        n_alpha: t1.n_alpha + t2.n_alpha,
        alpha_has_nan: t1.alpha_has_nan || t2.alpha_has_nan,
        leaves,
        sel,
        margin,
        diverged: t1.diverged || t2.diverged,
        inner_stop: t1.inner_stop || t2.inner_stop || (t2.s && !nu),
    }
}

/// Nesterov dual averaging state of Algorithm 6
#[derive(Debug, Clone, Copy)]
pub struct DualAvg {
    pub mu: f64,
    pub h_bar: f64,
    pub eps: f64,
    pub eps_bar: f64,
}

pub const GAMMA: f64 = 0.05;
pub const T0: f64 = 10.0;
pub const KAPPA: f64 = 0.75;

impl DualAvg {
    /// update after transition number `m` (1-based) with acceptance statistic `a`, target `delta`
    pub fn update(&mut self, m: usize, a: f64, delta: f64, adapting: bool) {
        let eta = 1.0 / (m as f64 + T0);
        self.h_bar = (1.0 - eta) * self.h_bar + eta * (delta - a);
        if adapting {
            let mf = m as f64;
            self.eps = (self.mu - mf.sqrt() / GAMMA * self.h_bar).exp();
            let w = mf.powf(-KAPPA);
            self.eps_bar = ((1.0 - w) * self.eps_bar.ln() + w * self.eps.ln()).exp();
        } else {
            self.eps = self.eps_bar;
        }
    }
}

/// Heuristic for the initial step size. `python_variant`: the variant of the Python
/// implementation the module cites (halve first while the first step is not finite, start the
/// doubling from eps/2 but test with the un-halved step); otherwise Algorithm 4 of the paper.
/// Returns (eps0, smallest decision margin, whether a non-finite energy change was met).
/// `range`: magnitudes beyond it (log-density, gradient entries, kinetic energy, positions of a
/// trial step) overflow in the arithmetic of the backend under test and count as non-finite.
pub fn find_reasonable_epsilon<D: Density>(d: &D, x: &[f64], p: &[f64], python_variant: bool, range: f64) -> (f64, f64, bool) {
    let s0 = state0(d, x, p);
    let mut eps = 1.0;
    let nonfinite = std::cell::Cell::new(false);
    let lap = |e: f64| -> f64 {
        let s = leap(d, &s0, e);
        let v = s.joint - s0.joint;
        let big = s.lp.abs().max(s.g.iter().fold(0.0f64, |m, v| m.max(v.abs()))).max(s.p.iter().map(|v| v * v).sum::<f64>()).max(s.x.iter().fold(0.0f64, |m, v| m.max(v.abs())));
        if !v.is_finite() || !(big <= range) {
            nonfinite.set(true);
        }
        v
    };
    let mut min_margin = f64::INFINITY;
    if python_variant {
        let mut k = 1.0;
        let finite = |e: f64| {
            let s = leap(d, &s0, e);
            s.lp.is_finite() || s.g.iter().all(|v| v.is_finite())
        };
        while !finite(eps * k) {
            k *= 0.5;
            if k == 0.0 {
                break;
            }
        }
        let mut lap_v = lap(eps * k);
        eps = 0.5 * k * eps;
        min_margin = min_margin.min((lap_v - 0.5f64.ln()).abs());
        let a = if lap_v > 0.5f64.ln() { 1.0 } else { -1.0 };
        let mut guard = 0;
        while a * lap_v > -a * 2.0f64.ln() {
            eps *= 2.0f64.powf(a);
            lap_v = lap(eps);
            min_margin = min_margin.min((a * lap_v + a * 2.0f64.ln()).abs());
            guard += 1;
            if guard > 2000 {
                break;
            }
        }
    } else {
        let mut lap_v = lap(eps);
        min_margin = min_margin.min((lap_v - 0.5f64.ln()).abs());
        let a = if lap_v > 0.5f64.ln() { 1.0 } else { -1.0 };
        let mut guard = 0;
        while a * lap_v > -a * 2.0f64.ln() {
            eps *= 2.0f64.powf(a);
            lap_v = lap(eps);
            min_margin = min_margin.min((a * lap_v + a * 2.0f64.ln()).abs());
            guard += 1;
            if guard > 2000 {
                break;
            }
        }
    }
    (eps, min_margin, nonfinite.get())
}

//! C17 — CSV / Arrow / Parquet export round-trips every value with correct labels; unwritable
//! paths yield errors, not panics or partial successes.

use crate::engine::num::{Prng, R};
use crate::engine::{bx, fingerprint, no_panic, CheckResult, Cov, Ctx, Fail};
use crate::ensure;
use arrow::array::{Array, Float64Array, UInt32Array};
use arrow::datatypes::DataType;
use arrow::record_batch::RecordBatch;
use burn::backend::NdArray;
use burn::prelude::*;
use mini_mcmc::io::arrow::save_arrow;
use mini_mcmc::io::csv::{save_csv, save_csv_tensor};
use mini_mcmc::io::parquet::{save_parquet, save_parquet_tensor};
use ndarray::Array3;
use proptest::prelude::*;
use serde::{Deserialize, Serialize};
use std::path::PathBuf;
use std::sync::atomic::{AtomicU64, Ordering};

#[derive(Debug, Clone, Serialize, Deserialize)]
pub struct Case {
    /// memory layout of the array handed to the array entry points: 0 standard (C order),
    /// 1 Fortran order, 2 a permuted-axes view of a (dim, obs, chain) array, 3 first axis inverted
    #[serde(default)]
    pub layout: u8,
    /// write a larger file to the same path first (exports over an existing file)
    #[serde(default)]
    pub prefill: bool,
    /// 0 csv, 1 arrow, 2 parquet
    pub fmt: u8,
    /// 0 array entry point, 1 tensor entry point
    pub tensor: bool,
    /// csv array: 0 f32, 1 f64, 2 i32, 3 usize; arrow/parquet array: 0 f32, 1 f64, 2 i32, 3 u32, 4 i16;
    /// tensor: 0 NdArray<f32>, 1 NdArray<f64>
    pub etype: u8,
    pub shape: [usize; 3],
    pub fill_seed: u64,
    pub special_rate: R,
    /// 0 writable file, 1 missing directory, 2 path is a directory, 3 /dev/full
    pub path_kind: u8,
}

fn strategy() -> BoxedStrategy<Case> {
    let ext = |max: usize| prop_oneof![2 => Just(0usize), 3 => Just(1usize), 8 => 2usize..=max];
    bx((
        0u8..3,
        any::<bool>(),
        0u8..5,
        (ext(6), ext(40), ext(8)),
        any::<u64>(),
        prop_oneof![Just(0.0f64), 0.05f64..0.6],
        prop_oneof![12 => Just(0u8), 1 => Just(1u8), 1 => Just(2u8), 2 => Just(3u8)],
        prop_oneof![3 => Just(0u8), 1 => Just(1u8), 1 => Just(2u8), 1 => Just(3u8)],
        proptest::bool::weighted(0.25),
    )
        .prop_map(|(fmt, tensor, etype, (a, b, c), fill_seed, special_rate, path_kind, layout, prefill)| {
            let tensor = tensor && fmt != 1; // there is no Arrow tensor entry point
            let etype = if tensor {
                etype % 2
            } else if fmt == 0 {
                etype % 4
            } else {
                etype
            };
            Case {
                layout,
                prefill,
                fmt,
                tensor,
                etype,
                shape: [a, b, c],
                fill_seed,
                special_rate: R(special_rate),
                path_kind,
            }
        }))
}

/// the value stored at flat index `i`: pairwise distinct "ordinary" values with special values
/// sprinkled in; returned as f64 that is exactly representable in the element type
fn values(case: &Case, kind: &str) -> Vec<f64> {
    let n: usize = case.shape.iter().product();
    let mut rng = Prng::new(case.fill_seed);
    (0..n)
        .map(|i| {
            let special = rng.unif() < case.special_rate.0;
            let pick = rng.below(12);
            match kind {
                "f32" => {
                    if special {
                        [
                            f32::NAN,
                            f32::INFINITY,
                            f32::NEG_INFINITY,
                            0.0,
                            -0.0,
                            f32::MAX,
                            f32::MIN,
                            f32::MIN_POSITIVE,
                            1e-45,
                            16777216.0,
                            16777217.0,
                            -1e-40,
                        ][pick as usize] as f64
                    } else {
                        ((i as f64 + 1.0) * 1.001 + rng.normal() * 1e-3) as f32 as f64
                    }
                }
                "f64" => {
                    if special {
                        [
                            f64::NAN,
                            f64::INFINITY,
                            f64::NEG_INFINITY,
                            0.0,
                            -0.0,
                            f64::MAX,
                            f64::MIN,
                            f64::MIN_POSITIVE,
                            5e-324,
                            9007199254740992.0,
                            9007199254740993.0,
                            -1e-310,
                        ][pick as usize]
                    } else {
                        (i as f64 + 1.0) * 1.000001 + rng.normal() * 1e-7
                    }
                }
                "i32" => {
                    if special {
                        [i32::MAX, i32::MIN, 0, -1, 16777217, -16777217][pick as usize % 6] as f64
                    } else {
                        (i as i64 * 7 - 50) as f64
                    }
                }
                "u32" => {
                    if special {
                        [u32::MAX, 0, 1, 16777217][pick as usize % 4] as f64
                    } else {
                        (i * 5 + 3) as f64
                    }
                }
                "i16" => {
                    if special {
                        [i16::MAX, i16::MIN, 0, -1][pick as usize % 4] as f64
                    } else {
                        ((i as i64 * 3 - 100) % 30000) as f64
                    }
                }
                // usize: values beyond 2^53 are not representable in the f64 carrier, keep exact ones
                _ => {
                    if special {
                        [0u64, 1, 1 << 53, (1 << 53) - 1, 16777217][pick as usize % 5] as f64
                    } else {
                        (i * 11 + 1) as f64
                    }
                }
            }
        })
        .collect()
}

static COUNTER: AtomicU64 = AtomicU64::new(0);

fn scratch_dir() -> PathBuf {
    let d = std::env::var("VERIF_SCRATCH")
        .map(PathBuf::from)
        .unwrap_or_else(|_| PathBuf::from("/dev/shm"))
        .join(format!("mcmc-verif-io-{}", std::process::id()));
    let _ = std::fs::create_dir_all(&d);
    d
}

fn target_path(case: &Case) -> (PathBuf, bool) {
    let k = COUNTER.fetch_add(1, Ordering::Relaxed);
    let dir = scratch_dir();
    let ext = ["csv", "arrow", "parquet"][case.fmt as usize];
    match case.path_kind {
        1 => (dir.join(format!("no-such-dir-{k}")).join(format!("f.{ext}")), false),
        2 => {
            let p = dir.join(format!("a-directory-{k}"));
            let _ = std::fs::create_dir_all(&p);
            (p, false)
        }
        3 => (PathBuf::from("/dev/full"), false),
        _ => (dir.join(format!("f-{k}.{ext}")), true),
    }
}

struct Table {
    header: Vec<String>,
    /// per row: (label0, label1, cells-as-f64-or-string)
    rows: Vec<(u64, u64, Vec<Cell>)>,
}
enum Cell {
    Text(String),
    F(f64),
}

fn read_csv(path: &PathBuf) -> Result<Table, String> {
    let mut rdr = csv::ReaderBuilder::new().has_headers(true).from_path(path).map_err(|e| e.to_string())?;
    let header: Vec<String> = rdr.headers().map_err(|e| e.to_string())?.iter().map(|s| s.to_string()).collect();
    let mut rows = vec![];
    for rec in rdr.records() {
        let rec = rec.map_err(|e| e.to_string())?;
        if rec.len() < 2 {
            return Err(format!("row with {} fields", rec.len()));
        }
        let a: u64 = rec[0].parse().map_err(|_| format!("chain label {:?}", &rec[0]))?;
        let b: u64 = rec[1].parse().map_err(|_| format!("observation label {:?}", &rec[1]))?;
        rows.push((a, b, rec.iter().skip(2).map(|s| Cell::Text(s.to_string())).collect()));
    }
    Ok(Table { header, rows })
}

fn batches_to_table(schema: &arrow::datatypes::Schema, batches: Vec<RecordBatch>) -> Result<Table, String> {
    let header: Vec<String> = schema.fields().iter().map(|f| f.name().clone()).collect();
    for (i, f) in schema.fields().iter().enumerate() {
        let want = if i < 2 { DataType::UInt32 } else { DataType::Float64 };
        if *f.data_type() != want {
            return Err(format!("column {} has type {:?}, documented {:?}", f.name(), f.data_type(), want));
        }
    }
    let mut rows = vec![];
    for b in batches {
        let c0 = b.column(0).as_any().downcast_ref::<UInt32Array>().ok_or("column 0 not UInt32")?;
        let c1 = b.column(1).as_any().downcast_ref::<UInt32Array>().ok_or("column 1 not UInt32")?;
        let dims: Vec<&Float64Array> = (2..b.num_columns())
            .map(|k| b.column(k).as_any().downcast_ref::<Float64Array>().ok_or("dim column not Float64"))
            .collect::<Result<_, _>>()?;
        for r in 0..b.num_rows() {
            if c0.is_null(r) || c1.is_null(r) || dims.iter().any(|d| d.is_null(r)) {
                return Err("null cell".into());
            }
            rows.push((c0.value(r) as u64, c1.value(r) as u64, dims.iter().map(|d| Cell::F(d.value(r))).collect()));
        }
    }
    Ok(Table { header, rows })
}

fn read_arrow(path: &PathBuf) -> Result<Table, String> {
    let f = std::fs::File::open(path).map_err(|e| e.to_string())?;
    let rdr = arrow::ipc::reader::FileReader::try_new(f, None).map_err(|e| e.to_string())?;
    let schema = rdr.schema();
    let mut batches = vec![];
    for b in rdr {
        batches.push(b.map_err(|e| e.to_string())?);
    }
    batches_to_table(&schema, batches)
}

fn read_parquet(path: &PathBuf) -> Result<Table, String> {
    let f = std::fs::File::open(path).map_err(|e| e.to_string())?;
    let builder = parquet::arrow::arrow_reader::ParquetRecordBatchReaderBuilder::try_new(f).map_err(|e| e.to_string())?;
    let schema = builder.schema().clone();
    let rdr = builder.with_batch_size(64).build().map_err(|e| e.to_string())?;
    let mut batches = vec![];
    for b in rdr {
        batches.push(b.map_err(|e| e.to_string())?);
    }
    batches_to_table(&schema, batches)
}

/// element kind name, and the value a cell must hold for stored value v
fn kind_of(case: &Case) -> &'static str {
    if case.tensor {
        ["f32", "f64"][case.etype as usize % 2]
    } else if case.fmt == 0 {
        ["f32", "f64", "i32", "usize"][case.etype as usize % 4]
    } else {
        ["f32", "f64", "i32", "u32", "i16"][case.etype as usize % 5]
    }
}

fn cell_matches(kind: &str, stored: f64, cell: &Cell) -> bool {
    match cell {
        Cell::F(x) => x.to_bits() == stored.to_bits() || (x.is_nan() && stored.is_nan()),
        Cell::Text(s) => match kind {
            "f32" => s.parse::<f32>().map(|p| p.to_bits() == (stored as f32).to_bits() || (p.is_nan() && stored.is_nan())).unwrap_or(false),
            "f64" => s.parse::<f64>().map(|p| p.to_bits() == stored.to_bits() || (p.is_nan() && stored.is_nan())).unwrap_or(false),
            "i32" => s.parse::<i32>().map(|p| p as f64 == stored).unwrap_or(false),
            _ => s.parse::<u64>().map(|p| p as f64 == stored).unwrap_or(false),
        },
    }
}

thread_local! {
    static LAYOUT: std::cell::Cell<u8> = const { std::cell::Cell::new(0) };
}

/// the array with logical content `vals` (C-order enumeration) in the requested memory layout
fn arr<T: Clone>(shape: [usize; 3], vals: &[f64], conv: impl Fn(f64) -> T) -> Array3<T> {
    use ndarray::ShapeBuilder;
    let std: Array3<T> = Array3::from_shape_vec((shape[0], shape[1], shape[2]), vals.iter().map(|v| conv(*v)).collect()).unwrap();
    match LAYOUT.with(|l| l.get()) {
        1 => Array3::from_shape_fn((shape[0], shape[1], shape[2]).f(), |(i, j, k)| std[[i, j, k]].clone()),
        2 => {
            let t: Array3<T> = Array3::from_shape_fn((shape[2], shape[1], shape[0]), |(k, j, i)| std[[i, j, k]].clone());
            t.permuted_axes([2, 1, 0])
        }
        3 => {
            let mut r: Array3<T> = Array3::from_shape_fn((shape[0], shape[1], shape[2]), |(i, j, k)| std[[shape[0] - 1 - i, j, k]].clone());
            r.invert_axis(ndarray::Axis(0));
            r
        }
        _ => std,
    }
}

fn do_save(case: &Case, vals: &[f64], path: &str) -> Result<Result<(), String>, String> {
    let s = case.shape;
    let kind = kind_of(case);
    let fmt = case.fmt;
    no_panic(|| -> Result<(), String> {
        let e = |r: Result<(), Box<dyn std::error::Error>>| r.map_err(|e| e.to_string());
        if case.tensor {
            match (fmt, kind) {
                (0, "f32") => e(save_csv_tensor(Tensor::<NdArray<f32>, 3>::from_data(TensorData::new(vals.iter().map(|v| *v as f32).collect::<Vec<f32>>(), s), &Default::default()), path)),
                (0, _) => e(save_csv_tensor(Tensor::<NdArray<f64>, 3>::from_data(TensorData::new(vals.to_vec(), s), &Default::default()), path)),
                (_, "f32") => e(save_parquet_tensor::<NdArray<f32>, _, f32>(
                    &Tensor::<NdArray<f32>, 3>::from_data(TensorData::new(vals.iter().map(|v| *v as f32).collect::<Vec<f32>>(), s), &Default::default()),
                    path,
                )),
                (_, _) => e(save_parquet_tensor::<NdArray<f64>, _, f64>(&Tensor::<NdArray<f64>, 3>::from_data(TensorData::new(vals.to_vec(), s), &Default::default()), path)),
            }
        } else {
            match (fmt, kind) {
                (0, "f32") => e(save_csv(&arr(s, vals, |v| v as f32), path)),
                (0, "f64") => e(save_csv(&arr(s, vals, |v| v), path)),
                (0, "i32") => e(save_csv(&arr(s, vals, |v| v as i32), path)),
                (0, _) => e(save_csv(&arr(s, vals, |v| v as usize), path)),
                (1, "f32") => e(save_arrow(&arr(s, vals, |v| v as f32), path)),
                (1, "f64") => e(save_arrow(&arr(s, vals, |v| v), path)),
                (1, "i32") => e(save_arrow(&arr(s, vals, |v| v as i32), path)),
                (1, "u32") => e(save_arrow(&arr(s, vals, |v| v as u32), path)),
                (1, _) => e(save_arrow(&arr(s, vals, |v| v as i16), path)),
                (_, "f32") => e(save_parquet(&arr(s, vals, |v| v as f32), path)),
                (_, "f64") => e(save_parquet(&arr(s, vals, |v| v), path)),
                (_, "i32") => e(save_parquet(&arr(s, vals, |v| v as i32), path)),
                (_, "u32") => e(save_parquet(&arr(s, vals, |v| v as u32), path)),
                (_, _) => e(save_parquet(&arr(s, vals, |v| v as i16), path)),
            }
        }
    })
}

pub fn check(case: &Case, cov: &mut Cov) -> CheckResult {
    let kind = kind_of(case);
    let vals = values(case, kind);
    let s = case.shape;
    let (path, writable) = target_path(case);
    let path_s = path.to_str().unwrap().to_string();
    let what = format!(
        "{} {} entry, {kind}, shape {:?}",
        ["csv", "arrow", "parquet"][case.fmt as usize],
        if case.tensor { "tensor" } else { "array" },
        s
    );
    // tensors with a zero extent cannot be built on this backend version by the harness itself
    // in some configurations; probe that outside the library call
    if case.tensor && s.iter().any(|x| *x == 0) {
        let ok = no_panic(|| {
            let _ = Tensor::<NdArray<f32>, 3>::from_data(TensorData::new(Vec::<f32>::new(), s), &Default::default()).to_data();
        });
        if ok.is_err() {
            cov.class("empty-tensor-unsupported-by-backend-skip");
            return Ok(());
        }
    }
    LAYOUT.with(|l| l.set(if case.tensor { 0 } else { case.layout }));
    if case.prefill && writable {
        // an older, larger export already sits at this path
        let mut big = case.clone();
        big.shape = [s[0] + 2, s[1] + 3, s[2]];
        big.prefill = false;
        let bv = values(&big, kind);
        let _ = do_save(&big, &bv, &path_s);
    }
    let res = do_save(case, &vals, &path_s);
    LAYOUT.with(|l| l.set(0));
    let cleanup = |p: &PathBuf| {
        if writable {
            let _ = std::fs::remove_file(p);
        } else if case.path_kind == 2 {
            let _ = std::fs::remove_dir_all(p);
        }
    };
    let res = match res {
        Ok(r) => r,
        Err(m) => {
            cleanup(&path);
            return Err(Fail::new(
                if writable { "save-panic" } else { "save-panic unwritable-path" },
                format!("{what}: save function panicked (path kind {}): {m}", case.path_kind),
            ));
        }
    };
    if !writable {
        cleanup(&path);
        ensure!(
            res.is_err(),
            "save-ok-on-unwritable-path",
            "{what}: reported success for an unwritable path (kind {}: {})",
            case.path_kind,
            path_s
        );
        cov.class(["", "err-missing-dir", "err-is-directory", "err-dev-full"][case.path_kind as usize]);
        cov.nontrivial_u64(fingerprint(case));
        return Ok(());
    }
    if let Err(e) = res {
        cleanup(&path);
        // an error is acceptable wherever the function does not accept the input (e.g. the CSV
        // tensor entry point on an f64 backend); it must not leave a "success"
        cov.class("err-on-writable-path(accepted)");
        let _ = e;
        return Ok(());
    }
    let table = match case.fmt {
        0 => read_csv(&path),
        1 => read_arrow(&path),
        _ => read_parquet(&path),
    };
    cleanup(&path);
    let table = table.map_err(|e| Fail::new("readback-failed", format!("{what}: save reported success but the file does not read back: {e}")))?;

    // documented axis order and labels
    let (label0, label1, n_outer, n_inner, chain_major) = if case.tensor && case.fmt == 2 {
        ("observation", "chain", s[0], s[1], false)
    } else {
        ("chain", "observation", s[0], s[1], true)
    };
    let _ = chain_major;
    let n_dims = s[2];
    let rows_expected = n_outer * n_inner;
    // an empty Parquet/Arrow file may come back without any batch; the schema must still be right
    let mut header = vec![label0.to_string(), label1.to_string()];
    header.extend((0..n_dims).map(|j| format!("dim_{j}")));
    ensure!(table.header == header, "header", "{what}: header/schema {:?}, documented {:?}", table.header, header);
    ensure!(table.rows.len() == rows_expected, "row-count", "{what}: {} rows read back, expected {rows_expected}", table.rows.len());
    for (r, (a, b, cells)) in table.rows.iter().enumerate() {
        let (o, i) = (r / n_inner.max(1), r % n_inner.max(1));
        ensure!(*a == o as u64 && *b == i as u64, "labels", "{what}: row {r} is labelled ({a}, {b}), expected ({o}, {i}) [{label0}, {label1}]");
        ensure!(cells.len() == n_dims, "cell-count", "{what}: row {r} has {} value cells, expected {n_dims}", cells.len());
        for (j, cell) in cells.iter().enumerate() {
            let stored = vals[(o * n_inner + i) * n_dims + j];
            if !cell_matches(kind, stored, cell) {
                let shown = match cell {
                    Cell::F(x) => format!("{x:e}"),
                    Cell::Text(t) => format!("{t:?}"),
                };
                return Err(Fail::new(
                    "value",
                    format!("{what}: cell ({label0}={o}, {label1}={i}, dim_{j}) reads back as {shown}, stored value {stored:e}"),
                ));
            }
        }
    }
    cov.class(["csv", "arrow", "parquet"][case.fmt as usize]);
    cov.class(if case.tensor { "tensor-entry" } else { "array-entry" });
    cov.class(kind);
    if s.iter().any(|x| *x == 0) {
        cov.class("zero-extent");
    }
    if !case.tensor && case.layout != 0 {
        cov.class(["", "fortran-order", "permuted-axes", "inverted-axis"][case.layout as usize]);
    }
    if case.prefill {
        cov.class("over-existing-larger-file");
    }
    let has_special = case.special_rate.0 > 0.0;
    if (s[0] >= 2 && s[1] >= 2 && s[2] >= 2) || (has_special && rows_expected * n_dims > 0) {
        cov.nontrivial_u64(fingerprint(case));
    }
    Ok(())
}

pub fn cleanup_scratch() {
    let _ = std::fs::remove_dir_all(scratch_dir());
}

pub fn run(ctx: &mut Ctx) {
    ctx.rule = "shapes 0..6 x 0..40 x 0..8 (all zero-extent combinations), element types f32/f64/i32/usize (CSV) and f32/f64/i32/u32/i16 (Arrow/Parquet), values pairwise distinct plus NaN, +-inf, +-0, extremes, subnormals, 2^24/2^53 edges; array and tensor entry points; paths: writable, missing directory, a directory, /dev/full; non-trivial = >=2 chains, >=2 observations, >=2 dims, or special values present, or an error path; distinct by case fingerprint".into();
    ctx.assume("files are read back with the csv / arrow-ipc / parquet readers of the same crate versions the library writes with");
    ctx.assume("an Err on a writable path is accepted (the statement only constrains reported successes)");
    let t = ctx.tier;
    ctx.section("roundtrip", "save, read back with a standard reader, compare header/schema, row count, index labels and every cell bitwise", t.pick(200_000, 6_000_000), 16, strategy, check);
    cleanup_scratch();
}

//! Harness targets: one spec enum that is (a) a `BatchedGradientTarget` / `GradientTarget` in
//! burn ops for the library and (b) a closed-form f64 log-density and gradient for the oracle.

use crate::engine::num::{Prng, R};
use burn::prelude::*;
use burn::tensor::backend::AutodiffBackend;
use mini_mcmc::distributions::{BatchedGradientTarget, GradientTarget};
use num_traits::Float;
use proptest::prelude::*;
use serde::{Deserialize, Serialize};

#[derive(Debug, Clone, Serialize, Deserialize, PartialEq)]
pub enum Spec {
    /// -1/2 (x-mu)^T P (x-mu); `prec` row-major SPD
    Gauss { dim: usize, mean: Vec<R>, prec: Vec<R> },
    /// -(a-x)^2 - b (y-x^2)^2
    Rosen2D { a: R, b: R },
    /// multivariate Student-t like heavy tail: -(nu+d)/2 ln(1 + |x|^2/(nu s^2))
    StudentT { dim: usize, nu: R, scale: R },
    /// -c sum x^4  (gradients explode: divergent at large step sizes)
    Quartic { dim: usize, c: R },
    /// Neal-funnel-like in 2-D: v ~ N(0, 3^2), w | v ~ N(0, e^v)
    Funnel,
    /// support x_0 > 0 : -x_0 - 1/2 sum_{i>0} x_i^2, -inf outside
    HalfLine { dim: usize },
    /// support [-1,1]^d: -1/2 |x|^2 inside, -inf outside
    BoxGauss { dim: usize },
    /// sum_i (k ln x_i - x_i): NaN for x_i < 0 (Gamma(k+1,1) per coordinate)
    LogMinus { dim: usize, k: R },
    /// sum_i (sqrt(x_i) - x_i): NaN for x_i < 0
    SqrtMinus { dim: usize },
}

impl Spec {
    pub fn dim(&self) -> usize {
        match self {
            Spec::Gauss { dim, .. } | Spec::StudentT { dim, .. } | Spec::Quartic { dim, .. } => *dim,
            Spec::HalfLine { dim } | Spec::BoxGauss { dim } | Spec::SqrtMinus { dim } | Spec::LogMinus { dim, .. } => *dim,
            Spec::Rosen2D { .. } | Spec::Funnel => 2,
        }
    }

    pub fn name(&self) -> &'static str {
        match self {
            Spec::Gauss { .. } => "gauss",
            Spec::Rosen2D { .. } => "rosenbrock2d",
            Spec::StudentT { .. } => "student-t",
            Spec::Quartic { .. } => "quartic",
            Spec::Funnel => "funnel",
            Spec::HalfLine { .. } => "half-line",
            Spec::BoxGauss { .. } => "box",
            Spec::LogMinus { .. } => "log-minus",
            Spec::SqrtMinus { .. } => "sqrt-minus",
        }
    }

    /// closed-form log-density (f64)
    pub fn logp(&self, x: &[f64]) -> f64 {
        match self {
            Spec::Gauss { dim, mean, prec } => {
                let d = *dim;
                let mut q = 0.0;
                for i in 0..d {
                    for j in 0..d {
                        q += (x[i] - mean[i].0) * prec[i * d + j].0 * (x[j] - mean[j].0);
                    }
                }
                -0.5 * q
            }
            Spec::Rosen2D { a, b } => -((a.0 - x[0]).powi(2) + b.0 * (x[1] - x[0] * x[0]).powi(2)),
            Spec::StudentT { dim, nu, scale } => {
                let s: f64 = x.iter().map(|v| v * v).sum();
                -(nu.0 + *dim as f64) / 2.0 * (1.0 + s / (nu.0 * scale.0 * scale.0)).ln()
            }
            Spec::Quartic { c, .. } => -c.0 * x.iter().map(|v| v.powi(4)).sum::<f64>(),
            Spec::Funnel => -x[0] * x[0] / 18.0 - 0.5 * x[1] * x[1] * (-x[0]).exp() - 0.5 * x[0],
            Spec::HalfLine { .. } => {
                if x[0] > 0.0 {
                    -x[0] - 0.5 * x[1..].iter().map(|v| v * v).sum::<f64>()
                } else if x[0].is_nan() {
                    f64::NAN
                } else {
                    f64::NEG_INFINITY
                }
            }
            Spec::BoxGauss { .. } => {
                if x.iter().any(|v| v.is_nan()) {
                    f64::NAN
                } else if x.iter().all(|v| v.abs() <= 1.0) {
                    -0.5 * x.iter().map(|v| v * v).sum::<f64>()
                } else {
                    f64::NEG_INFINITY
                }
            }
            Spec::LogMinus { k, .. } => x.iter().map(|v| k.0 * v.ln() - v).sum(),
            Spec::SqrtMinus { .. } => x.iter().map(|v| v.sqrt() - v).sum(),
        }
    }

    /// closed-form gradient (f64); meaningful inside the support
    pub fn grad(&self, x: &[f64]) -> Vec<f64> {
        match self {
            Spec::Gauss { dim, mean, prec } => {
                let d = *dim;
                (0..d)
                    .map(|i| {
                        -(0..d)
                            .map(|j| 0.5 * (prec[i * d + j].0 + prec[j * d + i].0) * (x[j] - mean[j].0))
                            .sum::<f64>()
                    })
                    .collect()
            }
            Spec::Rosen2D { a, b } => {
                let u = x[1] - x[0] * x[0];
                vec![2.0 * (a.0 - x[0]) + 4.0 * b.0 * x[0] * u, -2.0 * b.0 * u]
            }
            Spec::StudentT { dim, nu, scale } => {
                let s: f64 = x.iter().map(|v| v * v).sum();
                let ns2 = nu.0 * scale.0 * scale.0;
                let f = -(nu.0 + *dim as f64) / (ns2 + s);
                x.iter().map(|v| f * v).collect()
            }
            Spec::Quartic { c, .. } => x.iter().map(|v| -4.0 * c.0 * v * v * v).collect(),
            Spec::Funnel => {
                let e = (-x[0]).exp();
                vec![-x[0] / 9.0 + 0.5 * x[1] * x[1] * e - 0.5, -x[1] * e]
            }
            Spec::HalfLine { .. } => {
                let mut g: Vec<f64> = x.iter().map(|v| -v).collect();
                g[0] = -1.0;
                g
            }
            Spec::BoxGauss { .. } => x.iter().map(|v| -v).collect(),
            Spec::LogMinus { k, .. } => x.iter().map(|v| k.0 / v - 1.0).collect(),
            Spec::SqrtMinus { .. } => x.iter().map(|v| 0.5 / v.sqrt() - 1.0).collect(),
        }
    }

    /// has the target bounded support / NaN regions (C14 family)?
    pub fn bounded(&self) -> bool {
        matches!(self, Spec::HalfLine { .. } | Spec::BoxGauss { .. } | Spec::LogMinus { .. } | Spec::SqrtMinus { .. })
    }

    /// a point strictly inside the support, drawn roughly from the bulk
    pub fn interior_point(&self, rng: &mut Prng) -> Vec<f64> {
        let d = self.dim();
        match self {
            Spec::Gauss { mean, .. } => {
                let sd = self.marginal_sd();
                (0..d).map(|i| mean[i].0 + sd[i] * rng.normal()).collect()
            }
            Spec::Rosen2D { a, .. } => {
                let x = a.0 + 0.5 * rng.normal();
                vec![x, x * x + 0.1 * rng.normal()]
            }
            Spec::StudentT { scale, .. } => (0..d).map(|_| scale.0 * rng.normal()).collect(),
            Spec::Quartic { c, .. } => (0..d).map(|_| 0.5 * rng.normal() / c.0.powf(0.25)).collect(),
            Spec::Funnel => {
                let v = 1.5 * rng.normal();
                vec![v, (v / 2.0).exp() * rng.normal()]
            }
            Spec::HalfLine { .. } => {
                let mut x: Vec<f64> = (0..d).map(|_| rng.normal()).collect();
                x[0] = 0.05 + -rng.unif().ln();
                x
            }
            Spec::BoxGauss { .. } => (0..d).map(|_| 1.8 * rng.unif() - 0.9).collect(),
            Spec::LogMinus { k, .. } => (0..d).map(|_| 0.2 + k.0 + (k.0 + 1.0).sqrt() * rng.unif()).collect(),
            Spec::SqrtMinus { .. } => (0..d).map(|_| 0.1 + 2.0 * rng.unif()).collect(),
        }
    }

    /// marginal standard deviations (exact for Gauss; rough scale otherwise)
    pub fn marginal_sd(&self) -> Vec<f64> {
        match self {
            Spec::Gauss { dim, prec, .. } => {
                let cov = invert_spd(&prec.iter().map(|r| r.0).collect::<Vec<_>>(), *dim);
                (0..*dim).map(|i| cov[i * dim + i].sqrt()).collect()
            }
            Spec::StudentT { dim, scale, .. } => vec![scale.0; *dim],
            Spec::Quartic { dim, c } => vec![0.6 / c.0.powf(0.25); *dim],
            _ => vec![1.0; self.dim()],
        }
    }

    /// smallest length scale of the target (for choosing stable step sizes)
    pub fn min_scale(&self) -> f64 {
        match self {
            Spec::Gauss { dim, prec, .. } => {
                let p: Vec<f64> = prec.iter().map(|r| r.0).collect();
                1.0 / max_eig_spd(&p, *dim).sqrt()
            }
            Spec::Rosen2D { b, .. } => 1.0 / (8.0 * b.0.max(1.0)).sqrt(),
            Spec::StudentT { scale, .. } => scale.0,
            Spec::Quartic { c, .. } => 0.5 / c.0.powf(0.25),
            Spec::Funnel => 0.2,
            _ => 0.3,
        }
    }

    pub fn covariance(&self) -> Option<Vec<f64>> {
        match self {
            Spec::Gauss { dim, prec, .. } => Some(invert_spd(&prec.iter().map(|r| r.0).collect::<Vec<_>>(), *dim)),
            _ => None,
        }
    }
}

/// Gauss-Jordan inverse of a small SPD matrix (row-major)
pub fn invert_spd(a: &[f64], d: usize) -> Vec<f64> {
    let mut m = vec![0.0; d * 2 * d];
    for i in 0..d {
        for j in 0..d {
            m[i * 2 * d + j] = a[i * d + j];
        }
        m[i * 2 * d + d + i] = 1.0;
    }
    for c in 0..d {
        let mut piv = c;
        for r in c + 1..d {
            if m[r * 2 * d + c].abs() > m[piv * 2 * d + c].abs() {
                piv = r;
            }
        }
        if piv != c {
            for k in 0..2 * d {
                m.swap(c * 2 * d + k, piv * 2 * d + k);
            }
        }
        let p = m[c * 2 * d + c];
        for k in 0..2 * d {
            m[c * 2 * d + k] /= p;
        }
        for r in 0..d {
            if r != c {
                let f = m[r * 2 * d + c];
                if f != 0.0 {
                    for k in 0..2 * d {
                        m[r * 2 * d + k] -= f * m[c * 2 * d + k];
                    }
                }
            }
        }
    }
    let mut out = vec![0.0; d * d];
    for i in 0..d {
        for j in 0..d {
            out[i * d + j] = m[i * 2 * d + d + j];
        }
    }
    out
}

/// largest eigenvalue of an SPD matrix by power iteration
pub fn max_eig_spd(a: &[f64], d: usize) -> f64 {
    let mut v = vec![1.0; d];
    let mut lam = 1.0;
    for _ in 0..200 {
        let mut w = vec![0.0; d];
        for i in 0..d {
            for j in 0..d {
                w[i] += a[i * d + j] * v[j];
            }
        }
        let n = w.iter().map(|x| x * x).sum::<f64>().sqrt();
        if n == 0.0 {
            return 0.0;
        }
        lam = n / v.iter().map(|x| x * x).sum::<f64>().sqrt();
        v = w.iter().map(|x| x / n).collect();
    }
    lam
}

/// Cholesky factor (lower, row-major) of an SPD matrix
pub fn cholesky(a: &[f64], d: usize) -> Vec<f64> {
    let mut l = vec![0.0; d * d];
    for i in 0..d {
        for j in 0..=i {
            let mut s = a[i * d + j];
            for k in 0..j {
                s -= l[i * d + k] * l[j * d + k];
            }
            l[i * d + j] = if i == j { s.max(0.0).sqrt() } else { s / l[j * d + j] };
        }
    }
    l
}

// ---------------------------------------------------------------------------------------------
// the burn side
// ---------------------------------------------------------------------------------------------

#[derive(Debug, Clone)]
pub struct HTarget {
    pub spec: Spec,
    /// Optional evaluation budget (rows). The library has no NUTS tree-depth cap, and warm-up can
    /// collapse the step size by orders of magnitude, after which a single transition needs
    /// thousands of leapfrog steps. Once the budget is used up the target returns NaN, which
    /// makes every further tree stop after one step, so the call under test still returns. Checks
    /// that use a budget look at `exhausted()` and restrict what they compare afterwards.
    pub budget: Option<std::sync::Arc<std::sync::atomic::AtomicI64>>,
    /// every evaluation sleeps this long first (wall-clock pacing for the checks that need a run
    /// to outlast the library's progress timers; the values are unaffected)
    pub sleep_us: u32,
}

impl HTarget {
    pub fn new(spec: Spec) -> Self {
        HTarget { spec, budget: None, sleep_us: 0 }
    }

    pub fn with_sleep(mut self, us: u32) -> Self {
        self.sleep_us = us;
        self
    }

    pub fn with_budget(spec: Spec, rows: i64) -> Self {
        HTarget {
            spec,
            budget: Some(std::sync::Arc::new(std::sync::atomic::AtomicI64::new(rows))),
            sleep_us: 0,
        }
    }

    pub fn exhausted(&self) -> bool {
        self.budget.as_ref().map(|b| b.load(std::sync::atomic::Ordering::Relaxed) < 0).unwrap_or(false)
    }

    pub fn batch<B: Backend>(&self, x: Tensor<B, 2>) -> Tensor<B, 1> {
        let dev = B::Device::default();
        let [n, d] = x.dims();
        if self.sleep_us > 0 {
            std::thread::sleep(std::time::Duration::from_micros(self.sleep_us as u64));
        }
        if let Some(b) = &self.budget {
            if b.fetch_sub(n as i64, std::sync::atomic::Ordering::Relaxed) - (n as i64) < 0 {
                return x.sum_dim(1).reshape([n]).mul_scalar(f64::NAN);
            }
        }
        let col = |t: &Tensor<B, 2>, j: usize| -> Tensor<B, 1> { t.clone().slice([0..n, j..j + 1]).reshape([n]) };
        match &self.spec {
            Spec::Gauss { dim, mean, prec } => {
                let mu = Tensor::<B, 2>::from_data(TensorData::new(mean.iter().map(|r| r.0).collect::<Vec<f64>>(), [1, *dim]), &dev);
                let p = Tensor::<B, 2>::from_data(TensorData::new(prec.iter().map(|r| r.0).collect::<Vec<f64>>(), [*dim, *dim]), &dev);
                let delta = x - mu.expand([n, d]);
                let z = delta.clone().matmul(p);
                (z * delta).sum_dim(1).reshape([n]).mul_scalar(-0.5)
            }
            Spec::Rosen2D { a, b } => {
                let (x0, x1) = (col(&x, 0), col(&x, 1));
                let t1 = (-x0.clone()).add_scalar(a.0).powi_scalar(2);
                let t2 = (x1 - x0.powi_scalar(2)).powi_scalar(2).mul_scalar(b.0);
                -(t1 + t2)
            }
            Spec::StudentT { dim, nu, scale } => {
                let s = x.powi_scalar(2).sum_dim(1).reshape([n]);
                s.mul_scalar(1.0 / (nu.0 * scale.0 * scale.0)).add_scalar(1.0).log().mul_scalar(-(nu.0 + *dim as f64) / 2.0)
            }
            Spec::Quartic { c, .. } => x.powi_scalar(4).sum_dim(1).reshape([n]).mul_scalar(-c.0),
            Spec::Funnel => {
                let (v, w) = (col(&x, 0), col(&x, 1));
                v.clone().powi_scalar(2).mul_scalar(-1.0 / 18.0) - w.powi_scalar(2).mul((-v.clone()).exp()).mul_scalar(0.5) - v.mul_scalar(0.5)
            }
            Spec::HalfLine { .. } => {
                let x0 = col(&x, 0);
                let rest = if d > 1 {
                    x.clone().slice([0..n, 1..d]).powi_scalar(2).sum_dim(1).reshape([n]).mul_scalar(-0.5)
                } else {
                    Tensor::<B, 1>::zeros([n], &dev)
                };
                let inside = -x0.clone() + rest;
                let outside = x0.lower_equal_elem(0.0);
                inside.mask_fill(outside, f64::NEG_INFINITY)
            }
            Spec::BoxGauss { .. } => {
                let inside = x.clone().powi_scalar(2).sum_dim(1).reshape([n]).mul_scalar(-0.5);
                let outside = x.abs().greater_elem(1.0).any_dim(1).reshape([n]);
                inside.mask_fill(outside, f64::NEG_INFINITY)
            }
            Spec::LogMinus { k, .. } => (x.clone().log().mul_scalar(k.0) - x).sum_dim(1).reshape([n]),
            Spec::SqrtMinus { .. } => (x.clone().sqrt() - x).sum_dim(1).reshape([n]),
        }
    }
}

impl<T: Float, B: AutodiffBackend> BatchedGradientTarget<T, B> for HTarget {
    fn unnorm_logp_batch(&self, positions: Tensor<B, 2>) -> Tensor<B, 1> {
        self.batch(positions)
    }
}

impl<T: Float, B: AutodiffBackend> GradientTarget<T, B> for HTarget {
    fn unnorm_logp(&self, position: Tensor<B, 1>) -> Tensor<B, 1> {
        let d = position.dims()[0];
        self.batch(position.reshape([1, d]))
    }
}

// ---------------------------------------------------------------------------------------------
// generators
// ---------------------------------------------------------------------------------------------

/// SPD precision matrix with bounded condition number, built as Q diag(lam) Q^T from Givens
/// rotations (construction, not rejection)
pub fn gauss_spec(max_dim: usize, max_cond: f64) -> impl Strategy<Value = Spec> {
    (1usize..=max_dim, any::<u64>(), 0.0f64..1.0, prop_oneof![Just(1.0f64), 0.1f64..10.0], prop_oneof![Just(0.0f64), -3.0f64..3.0]).prop_map(
        move |(dim, seed, condfrac, scale, meanmag)| {
            let mut rng = Prng::new(seed);
            let cond = max_cond.powf(condfrac);
            // eigenvalues of the precision between 1/scale^2 and cond/scale^2
            let lam: Vec<f64> = (0..dim)
                .map(|i| {
                    let t = if dim == 1 { 0.0 } else { i as f64 / (dim as f64 - 1.0) };
                    cond.powf(t) / (scale * scale)
                })
                .collect();
            let mut q = vec![0.0; dim * dim];
            for i in 0..dim {
                q[i * dim + i] = 1.0;
            }
            for _ in 0..(2 * dim) {
                if dim < 2 {
                    break;
                }
                let i = rng.below(dim as u64) as usize;
                let mut j = rng.below(dim as u64 - 1) as usize;
                if j >= i {
                    j += 1;
                }
                let th = rng.unif() * std::f64::consts::PI;
                let (s, c) = th.sin_cos();
                for r in 0..dim {
                    let (a, b) = (q[r * dim + i], q[r * dim + j]);
                    q[r * dim + i] = c * a - s * b;
                    q[r * dim + j] = s * a + c * b;
                }
            }
            let mut prec = vec![0.0; dim * dim];
            for i in 0..dim {
                for j in 0..dim {
                    let mut s = 0.0;
                    for k in 0..dim {
                        s += q[i * dim + k] * lam[k] * q[j * dim + k];
                    }
                    prec[i * dim + j] = s;
                }
            }
            // symmetrise exactly
            for i in 0..dim {
                for j in 0..i {
                    let m = 0.5 * (prec[i * dim + j] + prec[j * dim + i]);
                    prec[i * dim + j] = m;
                    prec[j * dim + i] = m;
                }
            }
            let mean: Vec<R> = (0..dim).map(|_| R(meanmag * scale * rng.normal())).collect();
            Spec::Gauss {
                dim,
                mean,
                prec: prec.into_iter().map(R).collect(),
            }
        },
    )
}

/// smooth unbounded targets for HMC / NUTS structure checks
pub fn smooth_spec(max_dim: usize, max_cond: f64) -> impl Strategy<Value = Spec> {
    prop_oneof![
        6 => gauss_spec(max_dim, max_cond),
        2 => (0.5f64..1.5, prop_oneof![Just(100.0f64), 1.0f64..100.0]).prop_map(|(a, b)| Spec::Rosen2D { a: R(a), b: R(b) }),
        2 => (1usize..=max_dim.min(6), 1.0f64..8.0, 0.3f64..3.0).prop_map(|(dim, nu, scale)| Spec::StudentT { dim, nu: R(nu), scale: R(scale) }),
        1 => (1usize..=max_dim.min(4), 0.1f64..4.0).prop_map(|(dim, c)| Spec::Quartic { dim, c: R(c) }),
        1 => Just(Spec::Funnel),
    ]
}

/// targets with bounded support / NaN regions (C14)
pub fn bounded_spec() -> impl Strategy<Value = Spec> {
    prop_oneof![
        3 => (1usize..=3).prop_map(|dim| Spec::HalfLine { dim }),
        3 => (1usize..=3).prop_map(|dim| Spec::BoxGauss { dim }),
        2 => (1usize..=3, 0.5f64..4.0).prop_map(|(dim, k)| Spec::LogMinus { dim, k: R(k) }),
        2 => (1usize..=3).prop_map(|dim| Spec::SqrtMinus { dim }),
    ]
}

//! C07 — same seed, same output: bit-reproducible, independent of thread count, of other
//! samplers running concurrently and of progress reporting; different seeds differ.

use super::common::*;
use super::targets::{HTarget, Spec};
use crate::engine::num::R;
use crate::engine::{bx, no_panic, CheckResult, Cov, Ctx, Fail};
use crate::ensure;
use mini_mcmc::core::ChainRunner;
use mini_mcmc::distributions::{Conditional, Gaussian2D, IsotropicGaussian, Proposal, Target};
use mini_mcmc::gibbs::GibbsSampler;
use mini_mcmc::hmc::HMC;
use mini_mcmc::metropolis_hastings::MetropolisHastings;
use mini_mcmc::nuts::NUTS;
use ndarray::{arr1, arr2};
use proptest::prelude::*;
use rand::rngs::SmallRng;
use rand::{Rng, SeedableRng};
use serde::{Deserialize, Serialize};
use std::sync::atomic::{AtomicBool, Ordering};
use std::sync::Arc;

/// a 2-D Gaussian whose evaluation yields / spins for a state-determined pattern, so that the
/// completion order of parallel chains varies from inside the "program"
#[derive(Clone)]
struct SpinGauss {
    inner: Gaussian2D<f64>,
    spin: u32,
    sleep_us: u32,
}
impl Target<f64, f64> for SpinGauss {
    fn unnorm_logp(&self, position: &[f64]) -> f64 {
        if self.sleep_us > 0 {
            std::thread::sleep(std::time::Duration::from_micros(self.sleep_us as u64));
        }
        if self.spin > 0 {
            let h = position[0].to_bits().wrapping_mul(0x9E37_79B9_7F4A_7C15) >> 60;
            let mut x = 0u64;
            for i in 0..(h * self.spin as u64) {
                x = x.wrapping_mul(31).wrapping_add(i);
            }
            std::hint::black_box(x);
            if h % 3 == 0 {
                std::thread::yield_now();
            }
        }
        self.inner.unnorm_logp(position)
    }
}

#[derive(Clone)]
struct SeededConditional {
    rng: SmallRng,
    spin: u32,
    sleep_us: u32,
}
impl Conditional<f64> for SeededConditional {
    fn sample(&mut self, index: usize, given: &[f64]) -> f64 {
        if self.spin > 0 && index == 0 {
            std::thread::yield_now();
        }
        if self.sleep_us > 0 && index == 0 {
            std::thread::sleep(std::time::Duration::from_micros(self.sleep_us as u64));
        }
        let o: f64 = given.iter().enumerate().filter(|(i, _)| *i != index).map(|(_, v)| *v).sum();
        0.4 * o + self.rng.random::<f64>()
    }
}

#[derive(Debug, Clone, Serialize, Deserialize)]
pub struct Case {
    /// 0 MH, 1 Gibbs, 2 HMC, 3 NUTS
    pub kind: u8,
    pub seed: u64,
    pub other_seed: u64,
    pub chains: usize,
    pub n_collect: usize,
    pub n_discard: usize,
    /// rayon pool sizes of the repetitions
    pub pools: Vec<usize>,
    pub companions: usize,
    pub progress: bool,
    pub spin: u32,
    pub proposal_seeded: bool,
    pub f32: bool,
    /// HMC / NUTS: 0 = the 2-d Gaussian, otherwise the dimension of a wide target
    #[serde(default)]
    pub wide: usize,
    /// > 0: the progress-reporting run is paced to last about this many milliseconds per chain
    /// (the library's progress code has once-per-second and 250 ms timers)
    #[serde(default)]
    pub pace_ms: u32,
}

fn strategy() -> BoxedStrategy<Case> {
    bx((
        0u8..4,
        // seeds whose per-chain offsets (seed + i + 1) wrap are given real weight
        prop_oneof![3 => super::c18::seed_strategy(), 1 => (0u64..8).prop_map(|k| u64::MAX - k)],
        any::<u64>(),
        prop_oneof![6 => 1usize..=8, 1 => 9usize..=24],
        4usize..12,
        0usize..8,
        proptest::collection::vec(1usize..=16, 1..4),
        0usize..=3,
        proptest::bool::weighted(0.15),
        prop_oneof![Just(0u32), 1u32..300],
        any::<bool>(),
        (any::<bool>(), prop_oneof![10 => Just(0usize), 1 => 256usize..400, 1 => Just(1024usize)]),
    )
        .prop_map(|(kind, seed, other_seed, chains, n_collect, n_discard, pools, companions, progress, spin, proposal_seeded, (f32, wide))| Case {
            wide: if kind >= 2 { wide } else { 0 },
            pace_ms: 0,
            chains: if kind >= 2 && wide > 0 { chains.min(4) } else { chains },
            kind,
            seed,
            other_seed,
            n_collect,
            n_discard,
            pools,
            companions,
            progress,
            spin,
            proposal_seeded,
            f32,
        }))
}

/// runs that outlast the library's progress timers: run_progress must still return run's draws
fn paced_strategy() -> BoxedStrategy<Case> {
    bx((0u8..4, any::<u64>(), 2usize..=4, 6usize..14, 0usize..6, 1200u32..1800, any::<bool>()).prop_map(|(kind, seed, chains, n_collect, n_discard, pace_ms, f32)| Case {
        kind,
        seed,
        other_seed: seed,
        chains,
        n_collect,
        n_discard,
        pools: vec![],
        companions: 0,
        progress: true,
        spin: 0,
        proposal_seeded: true,
        f32,
        wide: 0,
        pace_ms,
    }))
}

fn spec_of(c: &Case) -> Spec {
    if c.wide > 0 {
        Spec::StudentT { dim: c.wide, nu: R(5.0), scale: R(1.0) }
    } else {
        gauss_spec()
    }
}

fn start_of(c: &Case, chain: usize) -> Vec<f64> {
    let dim = if c.wide > 0 { c.wide } else { 2 };
    (0..dim).map(|k| if k % 2 == 0 { 0.3 * chain as f64 - 0.5 } else { 1.0 - 0.2 * chain as f64 }).collect()
}

fn gauss_spec() -> Spec {
    Spec::Gauss {
        dim: 2,
        mean: vec![R(0.0), R(1.0)],
        prec: vec![R(0.375), R(-0.25), R(-0.25), R(0.5)],
    }
}

/// builds the sampler from scratch with `seed` and returns the bits of what `run` returns
fn run_once(c: &Case, seed: u64, pool: usize, progress: bool) -> Result<Vec<u64>, Fail> {
    let tp = rayon::ThreadPoolBuilder::new().num_threads(pool).build().map_err(|e| Fail::new("harness", format!("pool: {e}")))?;
    let inits: Vec<Vec<f64>> = (0..c.chains).map(|i| start_of(c, i)).collect();
    let (nc, nd) = (c.n_collect, c.n_discard);
    // pacing: only the progress-reporting run sleeps (the values do not depend on it)
    let steps = (nc + nd).max(1) as u32;
    let evals_per_step = [2u32, 1, 6, 10][c.kind as usize];
    let sleep_us = if progress && c.pace_ms > 0 { c.pace_ms * 1000 / (steps * evals_per_step) } else { 0 };
    let what = format!("{} (seed {seed}, {} chains, pool {pool}, progress {progress})", ["MH", "Gibbs", "HMC", "NUTS"][c.kind as usize], c.chains);
    let r = no_panic(|| -> Result<Vec<u64>, String> {
        tp.install(|| match c.kind {
            0 => {
                let target = SpinGauss {
                    inner: Gaussian2D {
                        mean: arr1(&[0.0, 1.0]),
                        cov: arr2(&[[4.0, 2.0], [2.0, 3.0]]),
                    },
                    spin: c.spin,
                    sleep_us,
                };
                // an unseeded proposal: its generator state comes from the OS; `seed` must make
                // the sampler reproducible all the same
                let mut proposal = IsotropicGaussian::<f64>::new(1.0);
                if c.proposal_seeded {
                    proposal = proposal.set_seed(seed ^ 0xABCD);
                }
                let mut s = MetropolisHastings::new(target, proposal, inits.clone()).seed(seed);
                let a = if progress { s.run_progress(nc, nd).map_err(|e| e.to_string())?.0 } else { s.run(nc, nd).map_err(|e| e.to_string())? };
                Ok(a.iter().map(|v| v.to_bits()).collect())
            }
            1 => {
                let mut s = GibbsSampler::new(
                    SeededConditional {
                        rng: SmallRng::seed_from_u64(seed ^ 0x77),
                        spin: c.spin,
                        sleep_us,
                    },
                    inits.clone(),
                )
                .set_seed(seed);
                let a = if progress { s.run_progress(nc, nd).map_err(|e| e.to_string())?.0 } else { s.run(nc, nd).map_err(|e| e.to_string())? };
                Ok(a.iter().map(|v| v.to_bits()).collect())
            }
            2 => {
                if c.f32 {
                    let init32: Vec<Vec<f32>> = inits.iter().map(|r| r.iter().map(|v| *v as f32).collect()).collect();
                    let mut s = HMC::<f32, B32, HTarget>::new(HTarget::new(spec_of(c)).with_sleep(sleep_us), init32, 0.3, 4).set_seed(seed);
                    let t = if progress { s.run_progress(nc, nd).map_err(|e| e.to_string())?.0 } else { s.run(nc, nd) };
                    Ok(to_vec(&t).iter().map(|v| v.to_bits()).collect())
                } else {
                    let mut s = HMC::<f64, B64, HTarget>::new(HTarget::new(spec_of(c)).with_sleep(sleep_us), inits.clone(), 0.3, 4).set_seed(seed);
                    let t = if progress { s.run_progress(nc, nd).map_err(|e| e.to_string())?.0 } else { s.run(nc, nd) };
                    Ok(to_vec(&t).iter().map(|v| v.to_bits()).collect())
                }
            }
            _ => {
                let target = HTarget::with_budget(spec_of(c), 200_000).with_sleep(sleep_us);
                if c.f32 {
                    let init32: Vec<Vec<f32>> = inits.iter().map(|r| r.iter().map(|v| *v as f32).collect()).collect();
                    let mut s = NUTS::<f32, B32, HTarget>::new(target, init32, 0.8).set_seed(seed);
                    let t = if progress { s.run_progress(nc, nd).map_err(|e| e.to_string())?.0 } else { s.run(nc, nd) };
                    Ok(to_vec(&t).iter().map(|v| v.to_bits()).collect())
                } else {
                    let mut s = NUTS::<f64, B64, HTarget>::new(target, inits.clone(), 0.8).set_seed(seed);
                    let t = if progress { s.run_progress(nc, nd).map_err(|e| e.to_string())?.0 } else { s.run(nc, nd) };
                    Ok(to_vec(&t).iter().map(|v| v.to_bits()).collect())
                }
            }
        })
    });
    match r {
        Err(m) => Err(Fail::new(
            if m.contains("overflow") { "panic seed-overflow".to_string() } else { "panic run".to_string() },
            format!("{what} panicked: {m}"),
        )),
        Ok(Err(e)) => Err(Fail::new("run-error", format!("{what} returned an error: {e}"))),
        Ok(Ok(v)) => Ok(v),
    }
}

/// other samplers running in other threads of this process while the sampler under test runs
fn companions(k: usize, stop: Arc<AtomicBool>) -> Vec<std::thread::JoinHandle<()>> {
    (0..k)
        .map(|i| {
            let stop = stop.clone();
            std::thread::spawn(move || {
                let mut round = 0u64;
                while !stop.load(Ordering::Relaxed) {
                    round += 1;
                    match i % 3 {
                        // always an HMC companion first: the sampler that used to draw from burn's
                        // process-global generator
                        0 => {
                            let mut s = HMC::<f64, B64, HTarget>::new(HTarget::new(gauss_spec()), vec![vec![0.1, 0.2]; 3], 0.2, 2).set_seed(round);
                            let _ = s.run(3, 0);
                        }
                        1 => {
                            let mut s = NUTS::<f64, B64, HTarget>::new(HTarget::with_budget(gauss_spec(), 50_000), vec![vec![0.0, 0.0]; 2], 0.8).set_seed(round * 7);
                            let _ = s.run(3, 2);
                        }
                        _ => {
                            let target = Gaussian2D {
                                mean: arr1(&[0.0, 0.0]),
                                cov: arr2(&[[1.0, 0.0], [0.0, 1.0]]),
                            };
                            let mut s = MetropolisHastings::new(target, IsotropicGaussian::<f64>::new(1.0), vec![vec![0.0, 0.0]; 4]).seed(round);
                            let _ = s.run(20, 0);
                        }
                    }
                }
            })
        })
        .collect()
}

fn check(c: &Case, cov: &mut Cov) -> CheckResult {
    let progress = c.progress;
    let dim = if c.wide > 0 { c.wide } else { 2 };
    // (paced runs: the chains run side by side)
    let base = run_once(c, c.seed, if c.pace_ms > 0 { c.chains } else { 1 }, progress)?;
    ensure!(!base.is_empty(), "harness", "empty output");
    let stop = Arc::new(AtomicBool::new(false));
    let comp = companions(c.companions, stop.clone());
    let mut result = Ok(());
    for (k, pool) in c.pools.iter().enumerate() {
        match run_once(c, c.seed, *pool, progress) {
            Err(f) => {
                result = Err(f);
                break;
            }
            Ok(v) => {
                if v != base {
                    let first = v.iter().zip(&base).position(|(a, b)| a != b);
                    result = Err(Fail::new(
                        match c.kind {
                            0 => "not-reproducible MH",
                            1 => "not-reproducible Gibbs",
                            2 => "not-reproducible HMC",
                            _ => "not-reproducible NUTS",
                        },
                        format!(
                            "{} with seed {} ({} chains, run({},{}), progress {progress}): repetition {k} on a {pool}-thread pool with {} concurrent companion samplers differs from the first construction on a 1-thread pool (first differing flat index {:?} of {})",
                            ["MH", "Gibbs", "HMC", "NUTS"][c.kind as usize],
                            c.seed,
                            c.chains,
                            c.n_collect,
                            c.n_discard,
                            c.companions,
                            first,
                            base.len()
                        ),
                    ));
                    break;
                }
            }
        }
    }
    stop.store(true, Ordering::Relaxed);
    for h in comp {
        let _ = h.join();
    }
    result?;
    // ... and regardless of whether progress reporting is used (NUTS: shifted by its one-draw offset)
    if progress {
        if c.kind != 3 {
            let plain = run_once(c, c.seed, 1, false)?;
            ensure!(
                plain == base,
                "progress-changes-draws",
                "{} with seed {}: run_progress({},{}) returns draws that differ bitwise from run({},{}) of an identically built sampler",
                ["MH", "Gibbs", "HMC", "NUTS"][c.kind as usize],
                c.seed,
                c.n_collect,
                c.n_discard,
                c.n_collect,
                c.n_discard
            );
        } else {
            let mut longer = c.clone();
            longer.n_collect = c.n_collect + 1;
            let plain = run_once(&longer, c.seed, 1, false)?;
            let per = (c.n_collect + 1) * dim;
            for ch in 0..c.chains {
                let want = &plain[ch * per + dim..(ch + 1) * per];
                let got = &base[ch * c.n_collect * dim..(ch + 1) * c.n_collect * dim];
                ensure!(want == got, "progress-changes-draws", "NUTS with seed {}: run_progress({},{}) differs bitwise from rows 1.. of run({},{}) (chain {ch})", c.seed, c.n_collect, c.n_discard, c.n_collect + 1, c.n_discard);
            }
        }
        cov.class("progress-vs-plain-compared");
    }
    // different seeds => different output
    if c.other_seed != c.seed {
        let other = run_once(c, c.other_seed, 1, false)?;
        let base_plain = if progress { run_once(c, c.seed, 1, false)? } else { base.clone() };
        // (if no chain ever left its start state, i.e. every transition was rejected, two seeds
        // legitimately give the same output; a moved chain cannot repeat under another seed)
        let per_chain = base_plain.len() / c.chains;
        let moved = (0..c.chains).any(|ch| {
            let rows = &base_plain[ch * per_chain..(ch + 1) * per_chain];
            rows.chunks(dim).any(|r| r != &rows[..dim]) || {
                let start = start_of(c, ch);
                let s32: Vec<f64> = start.iter().map(|v| (*v as f32) as f64).collect();
                let r0: Vec<f64> = rows[..dim].iter().map(|b| f64::from_bits(*b)).collect();
                r0 != start && r0 != s32
            }
        });
        if !moved {
            cov.class("no-chain-moved(seed-sensitivity-not-checked)");
        }
        ensure!(
            !moved || other != base_plain,
            "seed-ignored",
            "{}: seeds {} and {} give identical output",
            ["MH", "Gibbs", "HMC", "NUTS"][c.kind as usize],
            c.seed,
            c.other_seed
        );
    }
    cov.class(["MH", "Gibbs", "HMC", "NUTS"][c.kind as usize]);
    if c.seed > u64::MAX - 100 {
        cov.class("seed-near-max(per-chain offsets wrap)");
    }
    if progress {
        cov.class("with-progress-reporting");
    }
    if c.companions > 0 {
        cov.class("with-companions");
    }
    if c.wide > 0 {
        cov.class("wide-target(dim>=256)");
    }
    if c.pace_ms > 0 {
        cov.class("run-outlasts-progress-timers");
        cov.nontrivial(&("paced", c.kind, c.seed, c.chains, c.n_collect, c.n_discard));
    }
    if c.chains >= 2 && (c.pools.iter().any(|p| *p != 1) || c.companions > 0) {
        cov.nontrivial(&(c.kind, c.seed, c.chains, c.n_collect, c.n_discard, c.pools.clone(), c.companions, progress));
    }
    cov.evals(c.pools.len() as u64 + 1);
    Ok(())
}

pub fn run(ctx: &mut Ctx) {
    ctx.rule = "sampler in {MH, Gibbs, HMC, NUTS}, seeds from {0,1,42,random,u64::MAX-k}, 1..8 chains, small (n_collect, n_discard), rayon pools of 1..16 threads (ThreadPool::install), 0..3 concurrent companion samplers in other threads (HMC first), run vs run_progress, targets/conditionals that spin or yield for a state-determined pattern; each repetition rebuilds the sampler from the same inputs; non-trivial = >= 2 chains and (a pool size != 1 or a companion); distinct by configuration".into();
    ctx.assume("the OS schedule is perturbed (pool size, companions, yields), not enumerated; the library has no shared mutable state of its own between chains");
    ctx.assume("the MH proposal prototype is sometimes left unseeded (OS entropy): seed() alone must make the sampler reproducible");
    // cases block on companion threads and on the library's own progress threads, which need the
    // global rayon pool themselves: run on a plain thread
    ctx.use_pool_thread = false;
    ctx.set_case_timeout(120.0);
    let t = ctx.tier;
    ctx.max_shrink_iters = 150;
    ctx.section("reproducible", "bitwise equality of all repetitions of one configuration; different seeds differ; no panic for any u64 seed", t.pick(480, 20_000), 8, strategy, check);
    ctx.max_shrink_iters = 6; // each case lasts seconds by construction
    ctx.section("paced-progress", "run_progress of a run paced to outlast the library's once-per-second / 250 ms progress timers returns bitwise the draws of run", t.pick(16, 320), 8, paced_strategy, check);
}

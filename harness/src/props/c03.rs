//! C03 — every NUTS transition is Hoffman–Gelman Algorithm 6 on the leapfrog trajectory.

use super::common::*;
use super::targets::{smooth_spec, HTarget, Spec};
use crate::engine::num::{Prng, R};
use crate::engine::{bx, fingerprint, no_panic, CheckResult, Cov, Ctx, Fail};
use crate::ensure;
use crate::refs::nuts as rn;
use burn::tensor::backend::AutodiffBackend;
use mini_mcmc::nuts::{verif_build_tree, verif_leapfrog, verif_stop_criterion, NUTSChain};
use mini_mcmc::verif::{self, NutsStepRecord};
use proptest::prelude::*;
use rand::rngs::SmallRng;
use rand::{Rng, SeedableRng};
use rand_distr::{Exp1, StandardNormal};
use serde::{Deserialize, Serialize};

#[derive(Debug, Clone, Serialize, Deserialize)]
pub struct Case {
    /// before some transitions the caller assigns the public `position` field
    #[serde(default)]
    pub reposition: bool,
    /// the whole target is translated by this many (smallest) length scales: far-from-origin
    /// positions stress the rounding of the U-turn test (Gaussian targets only)
    #[serde(default)]
    pub offset: R,
    pub spec: Spec,
    /// 0: T=f64/B=f64 (tight), 1: T=f64/B=f32, 2: T=f32/B=f32
    pub combo: u8,
    pub seed: u64,
    /// displacement of the start point from a bulk point, in marginal sds
    pub displace: R,
    /// forced step sizes (units of the smallest length scale), one per transition
    pub eps_rel: Vec<R>,
    pub data_seed: u64,
}

fn strategy(max_steps: usize) -> BoxedStrategy<Case> {
    // log-uniform in [1/16, 64] x smallest scale: immediate U-turns and divergences at the top end
    let eps = (-4.0f64..6.0).prop_map(|e| 2f64.powf(e));
    bx((
        smooth_spec(8, 100.0),
        prop_oneof![6 => Just(0u8), 1 => Just(1u8), 1 => Just(2u8)],
        super::c18::seed_strategy(),
        prop_oneof![3 => Just(0.0f64), 2 => 0.0f64..3.0, 1 => 3.0f64..6.0],
        proptest::collection::vec(eps, 1..=max_steps),
        (any::<u64>(), proptest::bool::weighted(0.25), prop_oneof![4 => Just(0.0f64), 1 => Just(1e3f64), 1 => Just(1e5f64), 1 => Just(-3e5f64)]),
    )
        .prop_map(|(spec, combo, seed, displace, eps_rel, (data_seed, reposition, offset))| {
            // on f32 back ends positions 1e5 scales from the origin cannot even be advanced by a
            // small leapfrog step (increments fall below one ulp; the doubling then never ends —
            // the library has no depth cap): keep those to the f64 back end
            let offset = if combo != 0 { offset.clamp(-1e3, 1e3) } else { offset };
            (spec, combo, seed, displace, eps_rel, data_seed, reposition, offset)
        })
        .prop_map(|(spec, combo, seed, displace, eps_rel, data_seed, reposition, offset)| Case {
            reposition,
            offset: R(offset),
            spec: shift_spec(spec, offset),
            combo,
            seed,
            displace: R(displace),
            eps_rel: eps_rel.into_iter().map(R).collect(),
            data_seed,
        }))
}

/// translate a Gaussian target by `offset` x its smallest length scale along every axis
fn shift_spec(spec: Spec, offset: f64) -> Spec {
    if offset == 0.0 {
        return spec;
    }
    let sc = spec.min_scale();
    match spec {
        Spec::Gauss { dim, mean, prec } => Spec::Gauss {
            dim,
            // (rounded to f32-representable values so that every backend sees the same target)
            mean: mean.iter().map(|m| R(((m.0 + offset * sc) as f32) as f64)).collect(),
            prec,
        },
        other => other,
    }
}

fn maxabs(v: &[f64]) -> f64 {
    v.iter().fold(0.0f64, |a, b| a.max(b.abs()))
}
fn dist(a: &[f64], b: &[f64]) -> f64 {
    a.iter().zip(b).fold(0.0f64, |m, (x, y)| m.max((x - y).abs()))
}

pub struct Verdict {
    pub depth: usize,
    pub ambiguous: bool,
    pub admissible_points: usize,
    pub diverged: bool,
    pub inner_stop: bool,
    pub both_dirs: bool,
}

/// Layers A and B for one traced transition. `rng_before`: generator state before the
/// transition (Layer C) when available.
pub fn check_transition<T>(spec: &Spec, rec: &NutsStepRecord, eps_b: f64, rng_before: Option<SmallRng>, rng_after: Option<SmallRng>, cov: &mut Cov) -> Result<Verdict, Fail>
where
    T: num_traits::Float + num_traits::FromPrimitive,
    StandardNormal: rand::distr::Distribution<T>,
    rand_distr::StandardUniform: rand_distr::Distribution<T>,
    Exp1: rand_distr::Distribution<T>,
{
    let x = &rec.position_before;
    let p0 = &rec.mom_0;
    let eps = rec.epsilon;
    let logu = rec.logu;
    let s0 = rn::state0(spec, x, p0);
    // the slice level and the start energy the transition used
    let tol_j = 200.0 * eps_b * (s0.lp.abs() + 0.5 * p0.iter().map(|v| v * v).sum::<f64>() + 1.0 + x.iter().zip(&s0.g).map(|(a, b)| (a * b).abs()).sum::<f64>());
    ensure!(
        (rec.joint_0 - s0.joint).abs() <= tol_j,
        "nuts-joint0",
        "start energy: transition used log p(x) - |p|^2/2 = {}, reference {} (x={:?})",
        rec.joint_0,
        s0.joint,
        x
    );
    ensure!(logu <= rec.joint_0, "nuts-slice-above-joint", "slice level {logu} above the start energy {}", rec.joint_0);
    ensure!(!rec.doublings.is_empty(), "nuts-no-doubling", "a transition performed no doubling at all");

    // ---- Layer A: rebuild the doublings deterministically from (x, p0, logu, eps, directions)
    let mut minus = s0.clone();
    let mut plus = s0.clone();
    let mut n = 1usize;
    let total_steps: usize = rec.doublings.iter().map(|d| d.n_alpha).sum();
    let margin_tol = (2e4 * eps_b * (total_steps as f64 + 1.0)).min(0.5);
    let mut eligible: Vec<rn::State> = vec![s0.clone()];
    let mut ambiguous = false;
    let mut diverged = false;
    let mut inner_stop = false;
    let mut replay = rng_before;
    // Layer C prelude: momentum and slice draws
    if let Some(r) = replay.as_mut() {
        let m: Vec<T> = (&mut *r).sample_iter(StandardNormal).take(x.len()).collect();
        let m: Vec<f64> = m.iter().map(|v| num_traits::ToPrimitive::to_f64(v).unwrap()).collect();
        ensure!(
            dist(&m, p0) <= 4.0 * eps_b * (1.0 + maxabs(p0)),
            "nuts-draw-order momentum",
            "momentum {:?} is not the first dim normals of the chain's generator {:?}",
            p0,
            m
        );
        let e: T = r.sample(Exp1);
        let e = num_traits::ToPrimitive::to_f64(&e).unwrap();
        ensure!(
            ((rec.joint_0 - e) - logu).abs() <= 8.0 * eps_b * (rec.joint_0.abs() + e + 1.0),
            "nuts-draw-order slice",
            "slice level {logu} is not joint - Exp(1) draw = {} - {e}",
            rec.joint_0
        );
    }
    let mut cur = s0.clone();
    let mut sel_known = replay.is_some();
    let n_doublings = rec.doublings.len();
    let mut dirs = (false, false);
    for (j, dbl) in rec.doublings.iter().enumerate() {
        let v = dbl.direction;
        ensure!(v == 1 || v == -1, "nuts-direction", "direction {v}");
        if v == 1 {
            dirs.0 = true
        } else {
            dirs.1 = true
        }
        if let Some(r) = replay.as_mut() {
            let u: T = r.random::<T>();
            let want = if u < T::from_f64(0.5).unwrap() { 1 } else { -1 };
            ensure!(want == v, "nuts-draw-order direction", "doubling {j}: direction {v} but the generator's next uniform gives {want}");
        }
        let edge = if v == -1 { minus.clone() } else { plus.clone() };
        let mut uni = replay.as_mut();
        let t = rn::build_tree(spec, &edge, logu, v, j, eps, rec.joint_0, &mut uni);
        if v == -1 {
            minus = t.minus.clone();
        } else {
            plus = t.plus.clone();
        }
        diverged |= t.diverged;
        inner_stop |= t.inner_stop && j >= 1;
        if t.margin < margin_tol {
            ambiguous = true;
            break;
        }
        // structure of this doubling
        let ctx = format!("doubling {j} (direction {v}, eps {eps:e}, {})", spec.name());
        if dbl.n_alpha != t.n_alpha && std::env::var("VERIF_DEBUG").is_ok() {
            eprintln!("DEBUG tree-size: j={j} v={v} margin={:e} margin_tol={margin_tol:e} diverged={} inner_stop={} logu={logu} joint0={} leaves={:?} x={:?} p0={:?} lib_after={:?}", t.margin, t.diverged, t.inner_stop, rec.joint_0, t.leaves.iter().map(|l| (l.state.x.clone(), l.state.p.clone(), l.state.joint, l.admissible)).collect::<Vec<_>>(), x, p0, rec.position_after);
        }
        ensure!(dbl.n_alpha == t.n_alpha, "nuts-tree-size", "{ctx}: {} leapfrog steps taken, reference builds {} before stopping", dbl.n_alpha, t.n_alpha);
        ensure!(dbl.n_prime == t.n, "nuts-n-prime", "{ctx}: n' = {} slice-admissible points, reference counts {}", dbl.n_prime, t.n);
        ensure!(dbl.s_prime == t.s, "nuts-s-prime", "{ctx}: sub-tree reports s' = {}, reference (U-turn / divergence tests) {}", dbl.s_prime, t.s);
        if !t.alpha_has_nan {
            // rounding differences grow along the trajectory (the last doubling is up to 2^depth steps
            // away from the start); any real error in the statistic is O(1/n_alpha) or larger
            let tol_a = 1e5 * eps_b * (t.n_alpha as f64) * (1.0 + rec.joint_0.abs()) * (total_steps as f64 + 1.0) + 1e-12;
            cov.track_max("alpha_dev_over_tol", (dbl.alpha - t.alpha).abs() / tol_a);
            ensure!(
                (dbl.alpha - t.alpha).abs() <= tol_a,
                "nuts-alpha",
                "{ctx}: acceptance statistic sum {} over {} leaves, reference sum of min(1, exp(joint - joint0)) = {}",
                dbl.alpha,
                dbl.n_alpha,
                t.alpha
            );
        }
        // acceptance of the sub-tree's proposal
        let tmp = (t.n as f64 / n as f64).min(1.0);
        if let Some(r) = replay.as_mut() {
            let u2: T = r.random::<T>();
            // the same arithmetic, in T, as the listing: min(1, n'/n)
            let tmp_t = T::one().min(T::from_usize(t.n).unwrap() / T::from_usize(n).unwrap());
            let moved = t.s && u2 < tmp_t;
            ensure!(
                moved == dbl.moved,
                "nuts-accept-subtree",
                "{ctx}: sub-tree proposal {} but s'={} and u={:?} vs min(1, n'/n) = {tmp}",
                if dbl.moved { "adopted" } else { "not adopted" },
                t.s,
                num_traits::ToPrimitive::to_f64(&u2)
            );
            if moved {
                cur = t.sel.clone().unwrap();
            }
        } else {
            sel_known = false;
        }
        ensure!(!(dbl.moved && !t.s), "nuts-adopted-from-stopped-subtree", "{ctx}: a proposal from a sub-tree that stopped was adopted");
        ensure!(!(dbl.moved && t.n == 0), "nuts-adopted-inadmissible", "{ctx}: a proposal was adopted although the sub-tree has no slice-admissible point");
        if t.s {
            eligible.extend(t.leaves.iter().filter(|l| l.admissible).map(|l| l.state.clone()));
        }
        n += t.n;
        let (nu, um) = rn::no_uturn(&minus, &plus);
        if t.s && um < margin_tol {
            ambiguous = true;
            break;
        }
        let cont = t.s && nu;
        let is_last = j + 1 == n_doublings;
        ensure!(
            cont != is_last,
            if is_last { "nuts-stopped-early" } else { "nuts-continued-after-stop" },
            "{ctx}: reference says the doubling loop {} here (s'={}, no-U-turn={nu}), the transition {}",
            if cont { "continues" } else { "stops" },
            t.s,
            if is_last { "stopped" } else { "continued" }
        );
    }
    if !ambiguous {
        ensure!(rec.n == n, "nuts-n-total", "n = {} admissible points in total, reference {}", rec.n, n);
        let last = rec.doublings.last().unwrap();
        ensure!(rec.n_alpha == last.n_alpha && (rec.alpha - last.alpha).abs() <= 1e-9 * (1.0 + last.alpha.abs()), "nuts-alpha-last-doubling", "the transition's acceptance statistic is not that of the last doubling");
    }

    // ---- Layer B: the new state is the old one (bitwise) or an eligible trajectory point
    let after = &rec.position_after;
    let stayed = after.iter().zip(x).all(|(a, b)| a.to_bits() == b.to_bits());
    let moved_any = rec.doublings.iter().any(|d| d.moved);
    if !moved_any {
        ensure!(stayed, "nuts-moved-without-adoption", "position changed although no sub-tree proposal was adopted");
    }
    if !ambiguous && !stayed {
        let scale = maxabs(after) + maxabs(x) + 1.0;
        // rounding differences between the library's and the reference's trajectory grow
        // linearly over short trees and faster over hundreds of steps on non-linear targets
        // (a depth-9 Student-t tree was 5.7e-9 off at 511 steps); the tolerance always stays two
        // orders of magnitude below the distance to the next eligible point, so *which* point
        // was selected remains unambiguous
        let linear = 1e4 * eps_b * scale * (total_steps as f64 + 1.0);
        let growth = (total_steps as f64 / 32.0).max(1.0).powi(2);
        let mut ds: Vec<f64> = eligible.iter().map(|e| dist(&e.x, after)).collect();
        ds.sort_by(|a, b| a.partial_cmp(b).unwrap_or(std::cmp::Ordering::Equal));
        let second = ds.get(1).cloned().unwrap_or(f64::INFINITY);
        let tol_x = (linear * growth).min(0.05 * scale).min(linear.max(0.01 * second));
        let best = ds.first().cloned().unwrap_or(f64::INFINITY);
        if best > tol_x {
            // is it an existing but ineligible point, or not on the trajectory at all?
            return Err(Fail::new(
                "nuts-new-state-not-eligible",
                format!(
                    "new state {:?} is neither the previous state nor a slice-admissible point of a non-stopped sub-tree of the leapfrog trajectory through it (closest eligible point at distance {best:e}, tol {tol_x:e}; {} eligible points, depth {}, eps {eps:e}, {})",
                    after,
                    eligible.len(),
                    n_doublings,
                    spec.name()
                ),
            ));
        }
        // ---- Layer C: exact selection
        if sel_known {
            let d = dist(&cur.x, after);
            ensure!(
                d <= tol_x,
                "nuts-selection",
                "new state {:?} is an eligible point but not the one Algorithm 6 selects for the uniforms drawn (that one is {:?}, time index {})",
                after,
                cur.x,
                cur.t
            );
            cov.class("layer-C-selection-checked");
        }
    }
    if !ambiguous && sel_known {
        if let (Some(mut mine), Some(mut theirs)) = (replay, rng_after) {
            let a: u64 = rand::RngCore::next_u64(&mut mine);
            let b: u64 = rand::RngCore::next_u64(&mut theirs);
            ensure!(a == b, "nuts-draw-count", "after the transition the chain's generator is not where Algorithm 6's draw sequence leaves it");
        }
    }
    Ok(Verdict {
        depth: n_doublings,
        ambiguous,
        admissible_points: eligible.len(),
        diverged,
        inner_stop,
        both_dirs: dirs.0 && dirs.1,
    })
}

fn classify(v: &Verdict, cov: &mut Cov) -> bool {
    if v.ambiguous {
        cov.ambiguous();
        return false;
    }
    if v.diverged {
        cov.class("divergence-hit");
    }
    if v.inner_stop {
        cov.class("inner-subtree-stopped-early");
    }
    if v.both_dirs {
        cov.class("both-directions");
    }
    if v.depth >= 5 {
        cov.class("depth>=5");
    }
    cov.class(match v.depth {
        1 => "depth1",
        2 => "depth2",
        3 | 4 => "depth3-4",
        _ => "depth5+",
    });
    v.depth >= 2 && v.admissible_points >= 2
}

fn generic<T, B>(c: &Case, cov: &mut Cov, eps_b: f64) -> CheckResult
where
    T: num_traits::Float + burn::tensor::ElementConversion + burn::tensor::Element + rand_distr::uniform::SampleUniform + num_traits::FromPrimitive,
    B: AutodiffBackend,
    StandardNormal: rand::distr::Distribution<T>,
    rand_distr::StandardUniform: rand_distr::Distribution<T>,
    Exp1: rand_distr::Distribution<T>,
{
    let mut rng = Prng::new(c.data_seed);
    let sd = c.spec.marginal_sd();
    let start: Vec<f64> = c.spec.interior_point(&mut rng).iter().enumerate().map(|(i, v)| v + c.displace.0 * sd[i] * rng.normal()).collect();
    let start_t: Vec<T> = start.iter().map(|v| T::from_f64(*v).unwrap()).collect();
    let target = HTarget::with_budget(c.spec.clone(), 60_000);
    let mut chain = NUTSChain::<T, B, HTarget>::new(target.clone(), start_t, T::from_f64(0.8).unwrap()).set_seed(c.seed);
    let scale = c.spec.min_scale();
    let mut nontrivial = false;
    for (si, er) in c.eps_rel.iter().enumerate() {
        let eps = T::from_f64(er.0 * scale).unwrap();
        chain.verif_set_epsilon(eps);
        if c.reposition && si >= 1 {
            // `position` is a public field: the next transition must start from the new point
            let np: Vec<f64> = c.spec.interior_point(&mut rng);
            chain.position = tensor1::<B>(&np);
            cov.class("position-reassigned-between-transitions");
        }
        // keep the chain out of warm-up so that the forced step size is what the next step uses
        let rng_before = chain.verif_rng();
        verif::nuts_trace_start();
        let r = no_panic(|| chain.step());
        let tr = verif::nuts_trace_take();
        r.map_err(|m| Fail::new("nuts-panic", format!("NUTSChain::step panicked: {m}")))?;
        if target.exhausted() {
            cov.class("evaluation-budget-exhausted-skip");
            break;
        }
        ensure!(tr.len() == 1, "nuts-trace", "{} trace records for one step", tr.len());
        let rec = &tr[0];
        let used = num_traits::ToPrimitive::to_f64(&eps).unwrap();
        ensure!((rec.epsilon - used).abs() <= 1e-12 * used, "nuts-eps-used", "transition used step size {} instead of the current one {used}", rec.epsilon);
        let pos = to_vec(&chain.position);
        ensure!(pos.iter().zip(&rec.position_after).all(|(a, b)| a.to_bits() == b.to_bits()), "nuts-trace", "trace position differs from the chain position");
        let v = check_transition::<T>(&c.spec, rec, eps_b, Some(rng_before), Some(chain.verif_rng()), cov)?;
        if classify(&v, cov) {
            nontrivial = true;
        }
        cov.evals(1);
    }
    cov.class(match c.combo {
        0 => "T=f64,B=f64",
        1 => "T=f64,B=f32",
        _ => "T=f32,B=f32",
    });
    cov.class(c.spec.name());
    if nontrivial {
        cov.nontrivial_u64(fingerprint(c));
    }
    Ok(())
}

fn check(c: &Case, cov: &mut Cov) -> CheckResult {
    match c.combo {
        0 => generic::<f64, B64>(c, cov, f64::EPSILON),
        1 => generic::<f64, B32>(c, cov, f32::EPSILON as f64),
        _ => generic::<f32, B32>(c, cov, f32::EPSILON as f64),
    }
}

// ---------------------------------------------------------------------------------------------
// transitions of real runs (step sizes reached by warm-up): layers A and B on every transition
// ---------------------------------------------------------------------------------------------

#[derive(Debug, Clone, Serialize, Deserialize)]
pub struct RunCase {
    pub spec: Spec,
    pub seed: u64,
    pub n_collect: usize,
    pub n_discard: usize,
    pub accept: R,
    pub data_seed: u64,
}

fn run_strategy() -> BoxedStrategy<RunCase> {
    bx((smooth_spec(6, 50.0), any::<u64>(), 2usize..12, 0usize..25, 0.55f64..0.95, any::<u64>()).prop_map(|(spec, seed, n_collect, n_discard, accept, data_seed)| RunCase {
        spec,
        seed,
        n_collect,
        n_discard,
        accept: R(accept),
        data_seed,
    }))
}

fn check_run(c: &RunCase, cov: &mut Cov) -> CheckResult {
    let mut rng = Prng::new(c.data_seed);
    let start = c.spec.interior_point(&mut rng);
    // (evaluation budget: warm-up can collapse the step size and the library has no depth cap)
    let target = HTarget::with_budget(c.spec.clone(), 150_000);
    let mut chain = NUTSChain::<f64, B64, HTarget>::new(target.clone(), start, c.accept.0).set_seed(c.seed);
    verif::nuts_trace_start();
    let r = no_panic(|| chain.run(c.n_collect, c.n_discard));
    let tr = verif::nuts_trace_take();
    r.map_err(|m| Fail::new("nuts-panic", format!("NUTSChain::run panicked: {m}")))?;
    if target.exhausted() {
        cov.class("evaluation-budget-exhausted-skip");
        return Ok(());
    }
    let mut nontrivial = false;
    for (i, rec) in tr.iter().enumerate() {
        if i > 0 {
            ensure!(
                rec.position_before.iter().zip(&tr[i - 1].position_after).all(|(a, b)| a.to_bits() == b.to_bits()),
                "nuts-run-chain-broken",
                "transition {i} does not start where transition {} ended",
                i - 1
            );
            ensure!(
                rec.epsilon.to_bits() == tr[i - 1].epsilon_after.to_bits(),
                "nuts-eps-used",
                "transition {i} used step size {} but the previous transition left {}",
                rec.epsilon,
                tr[i - 1].epsilon_after
            );
        }
        // skip absurdly deep trees (no depth cap in the library; the generator cannot bound what
        // warm-up reaches) — counted
        if rec.doublings.len() > 10 {
            cov.class("depth>10-skipped");
            continue;
        }
        let v = check_transition::<f64>(&c.spec, rec, f64::EPSILON, None, None, cov)?;
        if classify(&v, cov) {
            nontrivial = true;
        }
        cov.evals(1);
    }
    if nontrivial {
        cov.nontrivial_u64(fingerprint(c));
    }
    Ok(())
}

// ---------------------------------------------------------------------------------------------
// direct calls of the private building blocks through the verif wrappers
// ---------------------------------------------------------------------------------------------

#[derive(Debug, Clone, Serialize, Deserialize)]
pub struct TreeCase {
    pub spec: Spec,
    pub j: usize,
    pub v: i8,
    pub eps_rel: R,
    /// slice level relative to the start energy: logu = joint(x,p) - e
    pub slice_drop: R,
    /// joint_0 handed to build_tree relative to the true start energy
    pub joint0_shift: R,
    pub pscale: R,
    pub rng_seed: u64,
    pub data_seed: u64,
}

fn tree_strategy() -> BoxedStrategy<TreeCase> {
    bx((
        smooth_spec(8, 100.0),
        0usize..=8,
        prop_oneof![Just(1i8), Just(-1i8)],
        (-4.0f64..5.0).prop_map(|e| 2f64.powf(e)),
        prop_oneof![4 => 0.0f64..3.0, 1 => 3.0f64..30.0, 1 => Just(0.0f64), 1 => -2.0f64..0.0, 1 => 900.0f64..1100.0],
        // joint_0 enters Algorithm 6's tree only through the acceptance statistic: shifting it by
        // thousands must not move any slice / divergence decision
        prop_oneof![6 => Just(0.0f64), 2 => -3.0f64..3.0, 1 => 500.0f64..3000.0, 1 => -3000.0f64..-500.0],
        prop_oneof![3 => Just(1.0f64), 1 => 0.2f64..4.0],
        any::<u64>(),
        any::<u64>(),
    )
        .prop_map(|(spec, j, v, eps_rel, slice_drop, joint0_shift, pscale, rng_seed, data_seed)| TreeCase {
            spec,
            j,
            v,
            eps_rel: R(eps_rel),
            slice_drop: R(slice_drop),
            joint0_shift: R(joint0_shift),
            pscale: R(pscale),
            rng_seed,
            data_seed,
        }))
}

fn check_tree(c: &TreeCase, cov: &mut Cov) -> CheckResult {
    type B = B64;
    let mut rng = Prng::new(c.data_seed);
    let x = c.spec.interior_point(&mut rng);
    let d = x.len();
    let p: Vec<f64> = (0..d).map(|_| c.pscale.0 * rng.normal()).collect();
    let eps = c.eps_rel.0 * c.spec.min_scale();
    // bound the work: a tree of depth j costs 2^j leapfrogs
    let s0 = rn::state0(&c.spec, &x, &p);
    let logu = s0.joint - c.slice_drop.0;
    let joint0 = s0.joint + c.joint0_shift.0;
    let target = HTarget::new(c.spec.clone());
    let mut lib_rng = SmallRng::seed_from_u64(c.rng_seed);
    let mut ref_rng = lib_rng.clone();
    let out = no_panic(|| verif_build_tree::<B, f64, HTarget>(tensor1::<B>(&x), tensor1::<B>(&p), tensor1::<B>(&s0.g), logu, c.v, c.j, eps, &target, joint0, &mut lib_rng))
        .map_err(|m| Fail::new("nuts-panic", format!("build_tree panicked: {m}")))?;
    let (pm, mm, gm, pp, mp, gp, ppr, gpr, lppr, n_prime, s_prime, alpha, n_alpha) = out;
    let mut uni = Some(&mut ref_rng);
    let t = rn::build_tree(&c.spec, &s0, logu, c.v, c.j, eps, joint0, &mut uni);
    let steps = t.n_alpha as f64;
    let margin_tol = 2e4 * f64::EPSILON * (steps + 1.0);
    if t.margin < margin_tol {
        cov.ambiguous();
        return Ok(());
    }
    let ctx = format!("build_tree(j={}, v={}, eps={eps:e}, {})", c.j, c.v, c.spec.name());
    ensure!(n_alpha == t.n_alpha, "nuts-tree-size", "{ctx}: {} leapfrog steps, reference {}", n_alpha, t.n_alpha);
    ensure!(n_prime == t.n, "nuts-n-prime", "{ctx}: n' = {n_prime}, reference {}", t.n);
    ensure!(s_prime == t.s, "nuts-s-prime", "{ctx}: s' = {s_prime}, reference {}", t.s);
    if !t.alpha_has_nan {
        ensure!((alpha - t.alpha).abs() <= 1e-7 * (1.0 + steps) * (1.0 + t.alpha.abs()), "nuts-alpha", "{ctx}: alpha' = {alpha}, reference {}", t.alpha);
    }
    let all_finite = t.leaves.iter().all(|l| l.state.x.iter().chain(l.state.p.iter()).all(|v| v.is_finite()));
    if all_finite {
        let tolv = |r: &[f64]| 1e-9 * (steps + 1.0) * (1.0 + maxabs(r)) * (1.0 + 1.0 / c.spec.min_scale());
        let cmp = |name: &str, got: &burn::prelude::Tensor<B, 1>, want: &[f64]| -> CheckResult {
            let g = to_vec(got);
            ensure!(dist(&g, want) <= tolv(want) * 1e3, "nuts-tree-edge", "{ctx}: {name} = {:?}, reference {:?}", g, want);
            Ok(())
        };
        cmp("position_minus", &pm, &t.minus.x)?;
        cmp("mom_minus", &mm, &t.minus.p)?;
        cmp("grad_minus", &gm, &t.minus.g)?;
        cmp("position_plus", &pp, &t.plus.x)?;
        cmp("mom_plus", &mp, &t.plus.p)?;
        cmp("grad_plus", &gp, &t.plus.g)?;
        // selection by the f64 merge uniforms drawn from `rng`
        let sel = t.sel.as_ref().unwrap();
        cmp("position_prime (selected point)", &ppr, &sel.x)?;
        cmp("grad_prime", &gpr, &sel.g)?;
        let lp = to_vec(&lppr)[0];
        ensure!((lp - sel.lp).abs() <= 1e-6 * (1.0 + sel.lp.abs()), "nuts-tree-edge", "{ctx}: logp_prime {lp}, reference {}", sel.lp);
    }
    let a: u64 = rand::RngCore::next_u64(&mut lib_rng);
    let b: u64 = rand::RngCore::next_u64(&mut ref_rng);
    ensure!(a == b, "nuts-draw-count", "{ctx}: build_tree consumed a different number of uniforms than one per completed pair of sub-trees");
    if t.diverged {
        cov.class("divergence-hit");
    }
    if t.inner_stop {
        cov.class("inner-subtree-stopped-early");
    }
    cov.class(if c.v == 1 { "forward" } else { "backward" });
    if c.j >= 2 && t.n >= 2 {
        cov.nontrivial_u64(fingerprint(c));
    }

    // stop criterion and single leapfrog on the same data
    let (nu, um) = rn::no_uturn(&t.minus, &t.plus);
    if um > 1e-9 && all_finite {
        let got = verif_stop_criterion::<B>(tensor1::<B>(&t.minus.x), tensor1::<B>(&t.plus.x), tensor1::<B>(&t.minus.p), tensor1::<B>(&t.plus.p));
        ensure!(got == nu, "nuts-stop-criterion", "stop_criterion = {got}, reference (theta+ - theta-).r- >= 0 and (theta+ - theta-).r+ >= 0 gives {nu}");
    }
    // U-turn test far from the origin on the f32 backend: all inputs exactly representable, so
    // the reference is exact and the decision has a margin >= 1
    {
        let mut r2 = Prng::new(c.data_seed ^ 0x0FF5E7);
        let off = [0.0, 1024.0, 1048576.0, -4194304.0][(c.rng_seed % 4) as usize];
        let dd = d.min(6);
        let minus_x: Vec<f64> = (0..dd).map(|_| off + (r2.below(17) as f64 - 8.0)).collect();
        let diff: Vec<f64> = (0..dd).map(|_| r2.below(9) as f64 - 4.0).collect();
        let plus_x: Vec<f64> = (0..dd).map(|i| minus_x[i] + diff[i]).collect();
        let pm_: Vec<f64> = (0..dd).map(|_| (r2.below(9) as f64 - 4.0) * 0.25).collect();
        let pp_: Vec<f64> = (0..dd).map(|_| (r2.below(9) as f64 - 4.0) * 0.25).collect();
        let dm: f64 = (0..dd).map(|i| diff[i] * pm_[i]).sum();
        let dp: f64 = (0..dd).map(|i| diff[i] * pp_[i]).sum();
        let want = dm >= 0.0 && dp >= 0.0;
        let got = verif_stop_criterion::<B32>(tensor1::<B32>(&minus_x), tensor1::<B32>(&plus_x), tensor1::<B32>(&pm_), tensor1::<B32>(&pp_));
        ensure!(
            got == want,
            "nuts-stop-criterion far-from-origin",
            "stop_criterion on the f32 backend = {got} for theta- {:?}, theta+ {:?}, r- {:?}, r+ {:?} (exact dot products {dm} and {dp})",
            minus_x,
            plus_x,
            pm_,
            pp_
        );
        if off != 0.0 {
            cov.class("stop-criterion-far-from-origin-f32");
        }
    }
    let (lx, lp_, lg, llp) = verif_leapfrog::<B, f64, HTarget>(tensor1::<B>(&x), tensor1::<B>(&p), tensor1::<B>(&s0.g), c.v as f64 * eps, &target);
    let one = rn::leap(&c.spec, &s0, c.v as f64 * eps);
    if one.x.iter().chain(one.p.iter()).all(|v| v.is_finite()) {
        let tol = |r: &[f64]| 1e-9 * (1.0 + maxabs(r)) * (1.0 + eps / c.spec.min_scale()).powi(2);
        ensure!(dist(&to_vec(&lx), &one.x) <= tol(&one.x), "nuts-leapfrog", "leapfrog position {:?}, reference {:?}", to_vec(&lx), one.x);
        ensure!(dist(&to_vec(&lp_), &one.p) <= tol(&one.p) * (1.0 + maxabs(&one.g) * eps), "nuts-leapfrog", "leapfrog momentum {:?}, reference {:?}", to_vec(&lp_), one.p);
        ensure!(dist(&to_vec(&lg), &one.g) <= 1e-8 * (1.0 + maxabs(&one.g)), "nuts-leapfrog", "leapfrog gradient {:?}, reference {:?}", to_vec(&lg), one.g);
        ensure!((to_vec(&llp)[0] - one.lp).abs() <= 1e-8 * (1.0 + one.lp.abs()), "nuts-leapfrog", "leapfrog logp {}, reference {}", to_vec(&llp)[0], one.lp);
    }
    Ok(())
}

pub fn run(ctx: &mut Ctx) {
    ctx.rule = "targets: Gaussians dim 1..8 (cond <= 100), Rosenbrock, Student-t, quartic (divergent), funnel; starts in the bulk or displaced up to 6 sd; forced step sizes log-uniform in [1/16, 64] x smallest scale (immediate U-turns and divergences at the top, depth <= ~10 at the bottom) and the step sizes real warm-up runs reach; seeds from the C07 mixture; direct calls of build_tree (j <= 8, both directions, generated slice levels incl. ~1000 below the start energy), stop_criterion, leapfrog; non-trivial = depth >= 2 and >= 2 eligible points; distinct by case fingerprint".into();
    ctx.assume("Layer C (exact selection) assumes Algorithm 6's draw order: momentum, Exp(1) slice, then per doubling: direction uniform, merge uniforms depth-first, acceptance uniform; layers A (structure) and B (eligibility of the new state) do not depend on it");
    ctx.assume("decisions whose margin is below 2e4*eps*(leapfrog steps) are counted ambiguous and the transition is skipped from that point");
    ctx.assume("min(1, exp(NaN)) of a NaN-energy leaf is left undefined by the statement: such transitions are excluded from the acceptance-statistic comparison");
    let t = ctx.tier;
    let max_steps = if t == crate::engine::Tier::Quick { 4 } else { 8 };
    ctx.section("forced-eps", "single transitions with forced step sizes: structure (layer A), eligibility (B), exact selection and generator position (C)", t.pick(8_000, 300_000), 16, move || strategy(max_steps), check);
    ctx.section("warmup-runs", "every transition of short real runs with warm-up: layers A and B", t.pick(1_200, 40_000), 16, run_strategy, check_run);
    ctx.section("direct-build-tree", "verif_build_tree / stop_criterion / leapfrog with generated inputs vs the reference (edges, counts, alpha, selected point, uniforms consumed)", t.pick(20_000, 600_000), 16, tree_strategy, check_tree);
}

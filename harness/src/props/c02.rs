//! C02 — an HMC update is L leapfrog steps plus a Metropolis test on the Hamiltonian; rows are
//! independent; the integrator is time-reversible.

use super::common::*;
use super::targets::{smooth_spec, HTarget, Spec};
use crate::engine::num::{Prng, R};
use crate::engine::{bx, fingerprint, no_panic, CheckResult, Cov, Ctx, Fail};
use crate::ensure;
use burn::tensor::backend::AutodiffBackend;
use mini_mcmc::hmc::HMC;
use mini_mcmc::verif::{self, HmcStepRecord};
use proptest::prelude::*;
use serde::{Deserialize, Serialize};

#[derive(Debug, Clone, Serialize, Deserialize)]
pub struct Case {
    /// between steps the caller reassigns public fields: bit 0 `step_size`, bit 1 `positions`,
    /// bit 2 `n_leapfrog`
    #[serde(default)]
    pub reassign: u8,
    pub spec: Spec,
    /// 0: T=f32/B=f32, 1: T=f64/B=f64, 2: T=f64/B=f32
    pub combo: u8,
    pub chains: usize,
    pub n_leapfrog: usize,
    /// step size in units of the target's smallest length scale
    pub eps_rel: R,
    pub steps: usize,
    /// inject momenta and uniforms through the hook (else: the sampler's own seeded draws)
    pub inject: bool,
    /// 0 random u, 1 u -> 0+ (accept whenever the energy error is finite), 2 u = 1 - tiny
    pub umode: u8,
    pub pscale: R,
    pub seed: u64,
    pub data_seed: u64,
}

fn strategy() -> BoxedStrategy<Case> {
    let eps = prop_oneof![4 => 0.05f64..1.0, 2 => 1.0f64..2.5, 1 => 1e-4f64..0.05, 1 => 2.5f64..10.0];
    bx((
        smooth_spec(16, 1000.0),
        0u8..3,
        prop_oneof![1 => Just(1usize), 4 => 2usize..8, 1 => 8usize..=32],
        prop_oneof![1 => Just(0usize), 2 => Just(1usize), 5 => 2usize..16, 2 => 16usize..=64],
        eps,
        1usize..=4,
        proptest::bool::weighted(0.7),
        prop_oneof![6 => Just(0u8), 2 => Just(1u8), 2 => Just(2u8), 1 => Just(3u8)],
        prop_oneof![3 => Just(1.0f64), 1 => 1.0f64..4.0],
        any::<u64>(),
        (any::<u64>(), prop_oneof![3 => Just(0u8), 2 => 1u8..8]),
    )
        .prop_map(|(spec, combo, chains, n_leapfrog, eps_rel, steps, inject, umode, pscale, seed, (data_seed, reassign))| Case {
            reassign,
            spec,
            combo,
            chains,
            n_leapfrog,
            eps_rel: R(eps_rel),
            steps,
            inject,
            umode,
            pscale: R(pscale),
            seed,
            data_seed,
        }))
}

/// Effective unit round-off of burn's NdArray<f32> kernels on batches: the vectorised kernels
/// deliver only ~1e-5 relative accuracy in the lanes of the SIMD main loop (measured: gradient of
/// ln(1+x^2/c) on a 32-row batch is accurate to 1e-8 in rows 0..7 and 24..31 and to 1..4e-5 in
/// rows 8..23). That is a property of the backend, not of mini-mcmc; f32 back ends are therefore
/// compared at this accuracy, the f64 back end at 2.2e-16.
pub const B32_KERNEL_EPS: f64 = 6e-5;

/// f64 velocity-Verlet with the closed-form gradient
pub fn ref_leapfrog(spec: &Spec, x: &[f64], p: &[f64], eps: f64, l: usize) -> (Vec<f64>, Vec<f64>) {
    let mut x = x.to_vec();
    let mut p = p.to_vec();
    let d = x.len();
    for _ in 0..l {
        let g = spec.grad(&x);
        for i in 0..d {
            p[i] += 0.5 * eps * g[i];
        }
        for i in 0..d {
            x[i] += eps * p[i];
        }
        let g = spec.grad(&x);
        for i in 0..d {
            p[i] += 0.5 * eps * g[i];
        }
    }
    (x, p)
}

/// velocity-Verlet with relative noise of size `eps_b` injected at every operation result
fn noisy_leapfrog(spec: &Spec, x: &[f64], p: &[f64], eps: f64, l: usize, eps_b: f64, rng: &mut Prng) -> (Vec<f64>, Vec<f64>) {
    let d = x.len();
    let mut x = x.to_vec();
    let mut p = p.to_vec();
    let nz = |v: f64, mag: f64, rng: &mut Prng| v + eps_b * mag * (2.0 * rng.unif() - 1.0) * 2.0;
    for _ in 0..l {
        let g = spec.grad(&x);
        let gm = maxabs(&g) + grad_term_scale(spec, &x);
        for i in 0..d {
            let gi = nz(g[i], gm, rng);
            p[i] = nz(p[i] + 0.5 * eps * gi, p[i].abs() + (0.5 * eps * gi).abs(), rng);
        }
        for i in 0..d {
            x[i] = nz(x[i] + eps * p[i], x[i].abs() + (eps * p[i]).abs(), rng);
        }
        let g = spec.grad(&x);
        let gm = maxabs(&g) + grad_term_scale(spec, &x);
        for i in 0..d {
            let gi = nz(g[i], gm, rng);
            p[i] = nz(p[i] + 0.5 * eps * gi, p[i].abs() + (0.5 * eps * gi).abs(), rng);
        }
    }
    (x, p)
}

/// magnitude of the (possibly cancelling) terms the gradient is assembled from
fn grad_term_scale(spec: &Spec, x: &[f64]) -> f64 {
    match spec {
        Spec::Gauss { dim, mean, prec } => {
            let d = *dim;
            (0..d).map(|i| (0..d).map(|j| (prec[i * d + j].0 * (x[j].abs() + mean[j].0.abs())).abs()).sum::<f64>()).fold(0.0, f64::max)
        }
        Spec::Rosen2D { a, b } => 2.0 * (a.0.abs() + x[0].abs()) + 4.0 * b.0 * x[0].abs() * (x[1].abs() + x[0] * x[0]) + 2.0 * b.0 * (x[1].abs() + x[0] * x[0]),
        Spec::Funnel => x[0].abs() / 9.0 + 0.5 * x[1] * x[1] * (-x[0]).exp() + 0.5 + (x[1] * (-x[0]).exp()).abs(),
        _ => 0.0,
    }
}

fn maxabs(v: &[f64]) -> f64 {
    v.iter().fold(0.0f64, |a, b| a.max(b.abs()))
}
fn maxdiff(a: &[f64], b: &[f64]) -> f64 {
    // (f64::max ignores NaN: a non-finite difference must not look like "no difference")
    a.iter().zip(b).fold(0.0f64, |m, (x, y)| {
        let d = (x - y).abs();
        if d.is_nan() {
            f64::INFINITY
        } else {
            m.max(d)
        }
    })
}

pub struct RowVerdict {
    pub compared_traj: bool,
    pub decided: Option<bool>,
}

/// Checks one row of one traced step against the reference. `after` is the row's position after
/// the step.
pub fn check_row(spec: &Spec, rec: &HmcStepRecord, row: usize, eps: f64, l: usize, eps_b: f64, after: &[f64], cov: &mut Cov, ctx: &str) -> Result<RowVerdict, Fail> {
    let d = rec.dim;
    let x = &rec.positions_before[row * d..(row + 1) * d];
    let p = &rec.momenta[row * d..(row + 1) * d];
    let xp = &rec.proposed_positions[row * d..(row + 1) * d];
    let pp = &rec.proposed_momenta[row * d..(row + 1) * d];
    let u = rec.uniforms[row];
    let same = |a: &[f64], b: &[f64]| a.iter().zip(b).all(|(s, t)| s.to_bits() == t.to_bits() || (s.is_nan() && t.is_nan()));
    // never a blend
    let at_old = same(after, x);
    let at_new = same(after, xp);
    ensure!(
        at_old || at_new,
        "hmc-blend",
        "{ctx} row {row}: position after the step {:?} is neither the old row {:?} nor the proposed row {:?}",
        after,
        x,
        xp
    );
    // trajectory vs reference, with a measured conditioning
    let (rx, rp) = ref_leapfrog(spec, x, p, eps, l);
    let mut compared = false;
    if rx.iter().chain(rp.iter()).all(|v| v.is_finite()) && xp.iter().chain(pp.iter()).all(|v| v.is_finite()) {
        // forward-error estimate by simulation: the reference integrator is re-run with relative
        // rounding noise of the backend's size injected into positions, momenta and gradients at
        // every step; the spread of the end points is what arithmetic of that precision can
        // legitimately produce (this follows chaotic amplification, which an a-priori bound cannot)
        let mut sx = 0.0f64;
        let mut sp = 0.0f64;
        let mut nrng = Prng::new(0x5EED ^ (row as u64) << 20 ^ (l as u64) << 8 ^ x[0].to_bits());
        for _ in 0..10 {
            let (qx, qp) = noisy_leapfrog(spec, x, p, eps, l, eps_b, &mut nrng);
            sx = sx.max(maxdiff(&qx, &rx));
            sp = sp.max(maxdiff(&qp, &rp));
        }
        if !(sx.is_finite() && sp.is_finite()) {
            sx = f64::INFINITY;
            sp = f64::INFINITY;
        }
        let scale_x = maxabs(&rx) + maxabs(x) + eps * maxabs(&rp);
        let scale_p = maxabs(&rp) + maxabs(p);
        if std::env::var("VERIF_DEBUG").is_ok() {
            eprintln!("DEBUG-SENS row {row}: sx={sx:e} sp={sp:e} eps_b={eps_b:e} scale_x={scale_x:e} l={l} eps={eps:e}");
        }
        let tol_x = 8.0 * sx + 20.0 * eps_b * scale_x + 1e-300;
        let tol_p = 8.0 * sp + 20.0 * eps_b * scale_p + 1e-300;
        let movement = maxdiff(&rx, x) + 1e-300;
        if l == 0 {
            ensure!(same(xp, x) && same(pp, p), "hmc-l0", "{ctx} row {row}: with L = 0 the proposal must be the current state");
        } else if tol_x < 0.02 * (movement + maxabs(x)) && tol_p < 0.05 * scale_p.max(1e-300) {
            let dx = maxdiff(xp, &rx);
            let dp = maxdiff(pp, &rp);
            cov.track_max("traj_dev_over_tol", (dx / tol_x).max(dp / tol_p));
            if (dx > tol_x || dp > tol_p) && std::env::var("VERIF_DEBUG").is_ok() {
                let g0 = spec.grad(x);
                let g1 = spec.grad(xp);
                eprintln!("DEBUG row {row}: x={:?} p={:?} g0={:?} xp={:?} g(xp)={:?} pp={:?} rx={:?} rp={:?} lp_cur(trace)={} lp_prop(trace)={}", x, p, g0, xp, g1, pp, rx, rp, rec.logp_current[row], rec.logp_proposed[row]);
            }
            if dx > tol_x || dp > tol_p {
                return Err(Fail::new(
                    "hmc-trajectory",
                    format!(
                        "{ctx} row {row} ({}, eps={eps:e}, L={l}): proposal {:?} / {:?} differs from {l} leapfrog steps of the reference {:?} / {:?} from x={:?} p={:?} (|dx|={dx:e} tol {tol_x:e}, |dp|={dp:e} tol {tol_p:e})",
                        spec.name(),
                        xp,
                        pp,
                        rx,
                        rp,
                        x,
                        p
                    ),
                ));
            }
            compared = true;
        } else {
            cov.class("row-ill-conditioned(structural-only)");
        }
    } else {
        cov.class("row-non-finite-trajectory");
    }
    // traced log-densities are the target at the traced points
    let lp_x = spec.logp(x);
    let lp_xp = spec.logp(xp);
    let gx = spec.grad(x);
    let gxp = spec.grad(xp);
    // log-density *values* are accurate to ~5e-7 relative on f32 back ends (only some gradient
    // kernels are worse), so the decision uses a tighter unit round-off than the trajectory
    let eps_lp = if eps_b > 1e-10 { 1e-6 } else { eps_b };
    let sens = |pt: &[f64], g: &[f64], lp: f64| 200.0 * eps_lp * (lp.abs() + 1.0 + pt.iter().zip(g).map(|(a, b)| (a * b).abs()).sum::<f64>() * 2.0 + spec_quad_scale(spec, pt));
    let tol_lx = sens(x, &gx, lp_x);
    let tol_lxp = sens(xp, &gxp, lp_xp);
    // magnitudes the f32 backend cannot hold (the f64 reference can): the library then works with
    // +-inf / NaN where the reference sees finite numbers
    let beyond_backend = |v: f64| eps_b > 1e-10 && !(v.abs() < 1e36);
    if lp_x.is_finite() && tol_lx.is_finite() && !beyond_backend(lp_x) {
        ensure!(
            (rec.logp_current[row] - lp_x).abs() <= tol_lx,
            "hmc-logp-current",
            "{ctx} row {row}: log-density used for the current state is {}, target at the current position is {lp_x}",
            rec.logp_current[row]
        );
    }
    // Metropolis decision on H = -logp + |p|^2/2
    let ke = 0.5 * p.iter().map(|v| v * v).sum::<f64>();
    let kep = 0.5 * pp.iter().map(|v| v * v).sum::<f64>();
    let dh = (-lp_x + ke) - (-lp_xp + kep);
    let ln_u = u.ln();
    let tol_h = tol_lx + if tol_lxp.is_finite() { tol_lxp } else { 0.0 } + 50.0 * eps_lp * (ke + kep);
    let decided = if dh.is_finite() && (beyond_backend(lp_x) || beyond_backend(lp_xp) || beyond_backend(ke) || beyond_backend(kep)) {
        cov.class("energy-beyond-f32-range(decision-not-asserted)");
        None
    } else if rec.logp_proposed[row].is_nan() || pp.iter().any(|v| v.is_nan()) {
        // the library's own H(x',p') is NaN: ln u <= NaN is false for every u, u = 0 included
        cov.class("library-side-NaN-energy(must-stay)");
        Some(false)
    } else if dh.is_nan() || dh == f64::NEG_INFINITY || !tol_h.is_finite() {
        if (dh == f64::NEG_INFINITY || dh.is_nan()) && u == 0.0 {
            // ln u = -inf <= -inf holds, on a proposal of infinite energy; and whether an
            // overflowing energy evaluates to -inf or to NaN (inf - inf) depends on the order of
            // operations inside the target: not asserted either way
            None
        } else if dh.is_nan() || dh == f64::NEG_INFINITY {
            // (a comparison with NaN is false for every u, u = 0 included)
            Some(false)
        } else {
            None
        }
    } else if dh == f64::INFINITY {
        None
    } else if (dh - ln_u).abs() <= tol_h {
        None
    } else {
        Some(ln_u <= dh)
    };
    match decided {
        None => cov.ambiguous(),
        Some(acc) => {
            // with L = 0 (or a proposal equal to x) both outcomes leave the same bits
            if !same(x, xp) {
                let ok = if acc { at_new } else { at_old };
                if !ok {
                    return Err(Fail::new(
                        if acc { "hmc-decision should-accept" } else { "hmc-decision should-reject" },
                        format!(
                            "{ctx} row {row} ({}): H(x,p)-H(x',p') = {dh:e}, ln u = {ln_u:e} (tol {tol_h:e}) => {} expected, but the row {}",
                            spec.name(),
                            if acc { "accept" } else { "reject" },
                            if at_new { "moved to the proposal" } else { "stayed" }
                        ),
                    ));
                }
            }
        }
    }
    Ok(RowVerdict { compared_traj: compared, decided })
}

/// extra magnitude of cancelling terms inside the density (e.g. (x-mu)^T P (x-mu) expanded)
fn spec_quad_scale(spec: &Spec, x: &[f64]) -> f64 {
    match spec {
        Spec::Gauss { dim, mean, prec } => {
            let d = *dim;
            let mut s = 0.0;
            for i in 0..d {
                for j in 0..d {
                    s += ((x[i].abs() + mean[i].0.abs()) * prec[i * d + j].0 * (x[j].abs() + mean[j].0.abs())).abs();
                }
            }
            s
        }
        Spec::Rosen2D { a, b } => (a.0.abs() + x[0].abs()).powi(2) + b.0 * (x[1].abs() + x[0] * x[0]).powi(2),
        _ => 0.0,
    }
}

fn generic<T, B>(c: &Case, cov: &mut Cov, eps_b: f64) -> CheckResult
where
    T: num_traits::Float + burn::tensor::ElementConversion + burn::tensor::Element + rand_distr::uniform::SampleUniform + num_traits::FromPrimitive,
    B: AutodiffBackend,
    rand_distr::StandardNormal: rand::distr::Distribution<T>,
    rand_distr::StandardUniform: rand_distr::Distribution<T>,
{
    let dim = c.spec.dim();
    let n = c.chains;
    let eps = c.eps_rel.0 * c.spec.min_scale();
    let eps_t = T::from_f64(eps).unwrap();
    let eps_used = num_traits::ToPrimitive::to_f64(&eps_t).unwrap();
    let mut rng = Prng::new(c.data_seed);
    let sd = c.spec.marginal_sd();
    let inits: Vec<Vec<T>> = (0..n)
        .map(|_| {
            let pt = c.spec.interior_point(&mut rng);
            pt.iter().enumerate().map(|(i, v)| T::from_f64(v + sd[i] * 0.5 * rng.normal()).unwrap()).collect()
        })
        .collect();
    let mut sampler = HMC::<T, B, HTarget>::new(HTarget::new(c.spec.clone()), inits.clone(), eps_t, c.n_leapfrog).set_seed(c.seed);
    let draw_u = |rng: &mut Prng| -> f64 {
        match c.umode {
            1 => 1e-30,
            2 => 1.0 - 1e-7,
            // the smallest draw a generator can return: ln u = -inf
            3 => 0.0,
            _ => rng.unif(),
        }
    };
    let mut prev_rejected = vec![false; n];
    let mut n_acc = 0;
    let mut n_rej = 0;
    let mut nontrivial = false;
    verif::hmc_clear_overrides();
    let mut eps_used = eps_used;
    let mut n_leap = c.n_leapfrog;
    for s in 0..c.steps {
        if s >= 1 && c.reassign != 0 {
            // `step_size`, `positions` and `n_leapfrog` are public fields: a caller may retune or
            // reposition the sampler between updates, and the next update must use the new values
            if c.reassign & 1 != 0 {
                let f = [0.5, 2.0, 0.8, 1.25][s % 4];
                let new_eps = T::from_f64(eps_used * f).unwrap();
                sampler.step_size = new_eps;
                eps_used = num_traits::ToPrimitive::to_f64(&new_eps).unwrap();
                cov.class("step_size-reassigned-between-steps");
            }
            if c.reassign & 2 != 0 {
                let flat: Vec<f64> = (0..n).flat_map(|_| c.spec.interior_point(&mut rng)).collect();
                sampler.positions = tensor2::<B>(&flat, n, dim);
                prev_rejected = vec![false; n];
                cov.class("positions-reassigned-between-steps");
            }
            if c.reassign & 4 != 0 {
                n_leap = (n_leap + s) % 9;
                sampler.n_leapfrog = n_leap;
            }
        }
        let mom: Vec<f64> = (0..n * dim).map(|_| c.pscale.0 * rng.normal()).collect();
        let us: Vec<f64> = (0..n).map(|_| draw_u(&mut rng)).collect();
        if c.inject {
            verif::hmc_push_momenta(mom.clone());
            verif::hmc_push_uniforms(us.clone());
        }
        verif::hmc_trace_start();
        let r = no_panic(|| sampler.step());
        let trace = verif::hmc_trace_take();
        verif::hmc_clear_overrides();
        r.map_err(|m| Fail::new("hmc-panic", format!("HMC::step panicked: {m}")))?;
        ensure!(trace.len() == 1, "hmc-trace", "one step produced {} trace records", trace.len());
        let rec = &trace[0];
        ensure!(rec.n_chains == n && rec.dim == dim, "hmc-trace", "trace shape {}x{} for a {n}x{dim} batch", rec.n_chains, rec.dim);
        if std::env::var("VERIF_DEBUG").is_ok() {
            use burn::prelude::*;
            let before = tensor2::<B>(&rec.positions_before, n, dim).require_grad();
            let lp = <HTarget as mini_mcmc::distributions::BatchedGradientTarget<T, B>>::unnorm_logp_batch(&sampler.target, before.clone());
            let g = to_vec(&Tensor::<B, 2>::from_inner(before.grad(&lp.backward()).unwrap()));
            for row in 0..n {
                let x = &rec.positions_before[row * dim..(row + 1) * dim];
                let gr = c.spec.grad(x);
                let rel = (g[row * dim] - gr[0]).abs() / gr[0].abs().max(1e-300);
                eprintln!("DEBUG-GRAD row {row} x={:?} lib_grad={} ref_grad={} rel_err={:e}", x, g[row * dim], gr[0], rel);
            }
        }
        let after = to_vec(&sampler.positions);
        let ctx = format!("step {s}{}", if prev_rejected.iter().any(|b| *b) { " (after a rejection)" } else { "" });
        for row in 0..n {
            let v = check_row(&c.spec, rec, row, eps_used, n_leap, eps_b, &after[row * dim..(row + 1) * dim], cov, &ctx).map_err(|f| {
                if prev_rejected[row] && f.sig.starts_with("hmc-trajectory") {
                    Fail::new("hmc-trajectory after-rejection", f.msg)
                } else {
                    f
                }
            })?;
            let x = &rec.positions_before[row * dim..(row + 1) * dim];
            let stayed = after[row * dim..(row + 1) * dim].iter().zip(x).all(|(a, b)| a.to_bits() == b.to_bits());
            if v.compared_traj && v.decided.is_some() && n_leap >= 1 {
                nontrivial = true;
                if prev_rejected[row] {
                    cov.class("row-checked-after-its-rejection");
                }
            }
            match v.decided {
                Some(true) => n_acc += 1,
                Some(false) => n_rej += 1,
                None => {}
            }
            prev_rejected[row] = stayed && n_leap >= 1;
        }
        cov.evals(n as u64);
    }
    cov.class_n("rows-accept", n_acc);
    cov.class_n("rows-reject", n_rej);
    cov.class(match c.combo {
        0 => "T=f32,B=f32",
        1 => "T=f64,B=f64",
        _ => "T=f64,B=f32",
    });
    cov.class(c.spec.name());
    cov.class(if c.inject { "injected" } else { "natural-draws" });
    if c.inject && c.umode == 3 {
        cov.class("u=0-exactly(ln u = -inf)");
    }
    if nontrivial {
        cov.nontrivial_u64(fingerprint(c));
    }
    Ok(())
}

fn check(c: &Case, cov: &mut Cov) -> CheckResult {
    match c.combo {
        0 => generic::<f32, B32>(c, cov, B32_KERNEL_EPS),
        1 => generic::<f64, B64>(c, cov, f64::EPSILON),
        _ => generic::<f64, B32>(c, cov, B32_KERNEL_EPS),
    }
}

// ---------------------------------------------------------------------------------------------
// row independence and reversibility (metamorphic)
// ---------------------------------------------------------------------------------------------

#[derive(Debug, Clone, Serialize, Deserialize)]
pub struct MetaCase {
    pub spec: Spec,
    pub f64_backend: bool,
    pub chains: usize,
    pub row: usize,
    pub n_leapfrog: usize,
    pub eps_rel: R,
    /// 0 ordinary other rows, 1 NaN, 2 +inf, 3 1e30, 4 far away
    pub poison: u8,
    pub data_seed: u64,
}

fn meta_strategy() -> BoxedStrategy<MetaCase> {
    bx((smooth_spec(8, 100.0), any::<bool>(), 2usize..=12, any::<usize>(), 1usize..=24, 0.05f64..1.5, 0u8..5, any::<u64>()).prop_map(
        |(spec, f64_backend, chains, row, n_leapfrog, eps_rel, poison, data_seed)| MetaCase {
            spec,
            f64_backend,
            chains,
            row: row % chains,
            n_leapfrog,
            eps_rel: R(eps_rel),
            poison,
            data_seed,
        },
    ))
}

fn one_step<B: AutodiffBackend>(spec: &Spec, pos: &[Vec<f64>], mom: &[f64], us: &[f64], eps: f64, l: usize) -> Result<(HmcStepRecord, Vec<f64>), Fail> {
    let mut s = HMC::<f64, B, HTarget>::new(HTarget::new(spec.clone()), pos.to_vec(), eps, l).set_seed(1);
    verif::hmc_clear_overrides();
    verif::hmc_push_momenta(mom.to_vec());
    verif::hmc_push_uniforms(us.to_vec());
    verif::hmc_trace_start();
    let r = no_panic(|| s.step());
    let mut tr = verif::hmc_trace_take();
    verif::hmc_clear_overrides();
    r.map_err(|m| Fail::new("hmc-panic", format!("HMC::step panicked: {m}")))?;
    Ok((tr.remove(0), to_vec(&s.positions)))
}

fn meta_generic<B: AutodiffBackend>(c: &MetaCase, cov: &mut Cov, eps_b: f64) -> CheckResult {
    let dim = c.spec.dim();
    let n = c.chains;
    let eps = c.eps_rel.0 * c.spec.min_scale();
    let mut rng = Prng::new(c.data_seed);
    let pos: Vec<Vec<f64>> = (0..n).map(|_| c.spec.interior_point(&mut rng)).collect();
    let mom: Vec<f64> = (0..n * dim).map(|_| rng.normal()).collect();
    let us: Vec<f64> = (0..n).map(|_| rng.unif()).collect();
    let r = c.row;
    let (rec_a, after_a) = one_step::<B>(&c.spec, &pos, &mom, &us, eps, c.n_leapfrog)?;
    // ---- companions replaced ----
    let mut pos_b = pos.clone();
    let mut mom_b = mom.clone();
    let mut us_b = us.clone();
    for i in 0..n {
        if i == r {
            continue;
        }
        let fill = match c.poison {
            1 => f64::NAN,
            2 => f64::INFINITY,
            3 => 1e30,
            4 => 1e4,
            _ => rng.normal() * 2.0,
        };
        for j in 0..dim {
            pos_b[i][j] = if c.poison == 0 { pos[i][j] + fill } else { fill };
            mom_b[i * dim + j] = rng.normal() * if c.poison == 3 { 1e20 } else { 1.0 };
        }
        us_b[i] = rng.unif();
    }
    let (rec_b, after_b) = one_step::<B>(&c.spec, &pos_b, &mom_b, &us_b, eps, c.n_leapfrog)?;
    let bits = |v: &[f64]| v.iter().map(|x| x.to_bits()).collect::<Vec<_>>();
    let row = |v: &[f64]| v[r * dim..(r + 1) * dim].to_vec();
    ensure!(
        bits(&row(&rec_a.proposed_positions)) == bits(&row(&rec_b.proposed_positions)) && bits(&row(&rec_a.proposed_momenta)) == bits(&row(&rec_b.proposed_momenta)),
        "hmc-row-leak proposal",
        "row {r} of {n}: proposal changed from {:?} to {:?} when only the other rows of the batch changed (poison kind {})",
        row(&rec_a.proposed_positions),
        row(&rec_b.proposed_positions),
        c.poison
    );
    ensure!(
        bits(&row(&after_a)) == bits(&row(&after_b)),
        "hmc-row-leak outcome",
        "row {r} of {n}: outcome changed from {:?} to {:?} when only the other rows of the batch changed (poison kind {})",
        row(&after_a),
        row(&after_b),
        c.poison
    );
    // ---- the row alone ----
    let (rec_c, after_c) = one_step::<B>(&c.spec, &[pos[r].clone()], &mom[r * dim..(r + 1) * dim], &[us[r]], eps, c.n_leapfrog)?;
    let scale = maxabs(&row(&rec_a.proposed_positions)) + maxabs(&pos[r]) + 1e-300;
    let amp = 1.0 + c.n_leapfrog as f64;
    if rec_a.proposed_positions[r * dim..(r + 1) * dim].iter().all(|v| v.is_finite()) {
        let dx = maxdiff(&rec_c.proposed_positions, &row(&rec_a.proposed_positions));
        cov.track_max("alone_vs_batch_dev_over_eps_scale", dx / (eps_b * scale * amp));
        // same arithmetic, possibly a different kernel for a one-row batch: a few ulp per step,
        // amplified at most like the trajectory's own sensitivity (measured below)
        let (rx, _) = ref_leapfrog(&c.spec, &pos[r], &mom[r * dim..(r + 1) * dim], eps, c.n_leapfrog);
        let x2: Vec<f64> = pos[r].iter().map(|v| v * (1.0 + eps_b)).collect();
        let (rx2, _) = ref_leapfrog(&c.spec, &x2, &mom[r * dim..(r + 1) * dim], eps, c.n_leapfrog);
        let sens = maxdiff(&rx, &rx2);
        ensure!(
            dx <= 50.0 * amp * (eps_b * scale + sens),
            "hmc-alone-vs-batch",
            "row {r}: proposal in the batch {:?} vs run alone {:?}",
            row(&rec_a.proposed_positions),
            rec_c.proposed_positions
        );
    }
    let _ = after_c;
    // ---- reversibility ----
    let tiny = vec![1e-30; 1];
    let (f, _) = one_step::<B>(&c.spec, &[pos[r].clone()], &mom[r * dim..(r + 1) * dim], &tiny, eps, c.n_leapfrog)?;
    if f.proposed_positions.iter().chain(f.proposed_momenta.iter()).all(|v| v.is_finite()) {
        let neg: Vec<f64> = f.proposed_momenta.iter().map(|v| -v).collect();
        let (b, _) = one_step::<B>(&c.spec, &[f.proposed_positions.clone()], &neg, &tiny, eps, c.n_leapfrog)?;
        // conditioning of the round trip, measured on the reference
        let (fx, fp) = ref_leapfrog(&c.spec, &pos[r], &mom[r * dim..(r + 1) * dim], eps, c.n_leapfrog);
        let fx2: Vec<f64> = fx.iter().map(|v| v * (1.0 + eps_b) + eps_b * 1e-3).collect();
        let nfp: Vec<f64> = fp.iter().map(|v| -v).collect();
        let (bx1, _) = ref_leapfrog(&c.spec, &fx, &nfp, eps, c.n_leapfrog);
        let (bx2, _) = ref_leapfrog(&c.spec, &fx2, &nfp, eps, c.n_leapfrog);
        let sens = maxdiff(&bx1, &bx2) + maxdiff(&bx1, &pos[r]);
        let scale = maxabs(&pos[r]) + maxabs(&fx) + 1e-300;
        // rounding noise of the backend's size injected at every operation of the forward and
        // the backward pass (errors made early are amplified by the rest of the forward pass and
        // the whole way back, which a single perturbation at the turning point underestimates)
        let mut sim_x = 0.0f64;
        let mut sim_p = 0.0f64;
        let mut nrng = Prng::new(0xB0C4 ^ (r as u64) << 20 ^ (c.n_leapfrog as u64) << 8 ^ pos[r][0].to_bits());
        for _ in 0..10 {
            let (qx, qp) = noisy_leapfrog(&c.spec, &pos[r], &mom[r * dim..(r + 1) * dim], eps, c.n_leapfrog, eps_b, &mut nrng);
            let nqp: Vec<f64> = qp.iter().map(|v| -v).collect();
            let (rbx, bp) = noisy_leapfrog(&c.spec, &qx, &nqp, eps, c.n_leapfrog, eps_b, &mut nrng);
            let nbp: Vec<f64> = bp.iter().map(|v| -v).collect();
            sim_x = sim_x.max(maxdiff(&rbx, &pos[r]));
            sim_p = sim_p.max(maxdiff(&nbp, &mom[r * dim..(r + 1) * dim]));
        }
        let tol = (60.0 * amp * (sens + eps_b * scale)).max(8.0 * sim_x + 20.0 * eps_b * scale);
        if tol < 0.02 * (maxdiff(&fx, &pos[r]) + maxabs(&pos[r])) {
            let dx = maxdiff(&b.proposed_positions, &pos[r]);
            let back_p: Vec<f64> = b.proposed_momenta.iter().map(|v| -v).collect();
            let dp = maxdiff(&back_p, &mom[r * dim..(r + 1) * dim]);
            cov.track_max("reversal_dev_over_tol", dx / tol);
            ensure!(
                dx <= tol,
                "hmc-not-reversible",
                "integrating {} steps forward from x={:?} and {} steps again from (x', -p') returns to {:?} (|dx| = {dx:e}, tol {tol:e})",
                c.n_leapfrog,
                pos[r],
                c.n_leapfrog,
                b.proposed_positions
            );
            let ptol = (60.0 * amp * (eps_b * (maxabs(&mom[r * dim..(r + 1) * dim]) + maxabs(&fp)) + sens / eps.max(1e-300))).max(8.0 * sim_p);
            ensure!(dp <= ptol, "hmc-not-reversible", "momentum after the round trip is {:?}, expected -p = {:?}", b.proposed_momenta, mom[r * dim..(r + 1) * dim].iter().map(|v| -v).collect::<Vec<_>>());
            cov.class("reversibility-checked");
        } else {
            cov.class("reversibility-ill-conditioned-skip");
        }
    }
    cov.class(["others-perturbed", "others-NaN", "others-inf", "others-1e30", "others-far"][c.poison as usize]);
    cov.nontrivial_u64(fingerprint(c));
    Ok(())
}

fn check_meta(c: &MetaCase, cov: &mut Cov) -> CheckResult {
    if c.f64_backend {
        meta_generic::<B64>(c, cov, f64::EPSILON)
    } else {
        meta_generic::<B32>(c, cov, B32_KERNEL_EPS)
    }
}

pub fn run(ctx: &mut Ctx) {
    ctx.rule = "targets: Gaussians dim 1..16 (cond <= 1e3), Rosenbrock, Student-t, quartic, funnel; eps log-spread over [1e-4,10] x smallest length scale (stable and unstable), L 0..64, 1..32 chains, (T,backend) in {(f32,f32),(f64,f64),(f64,f32)}, histories of 1..4 steps on one sampler (steps after rejections), momenta/uniforms injected through the hook or drawn by the sampler and read from the trace; non-trivial = L >= 1, trajectory compared (well-conditioned) and decision not ambiguous; distinct by case fingerprint".into();
    ctx.assume("trajectory tolerance = 8 x the spread of 10 re-runs of the f64 reference with backend-sized rounding noise injected at every step (+ 20 eps scale); rows whose tolerance exceeds 2% of the movement are checked structurally only (old-or-proposed, decision)");
    ctx.assume("NdArray<f32> kernels are compared at their measured accuracy 6e-5 (SIMD main-loop lanes), NdArray<f64> at 2.2e-16");
    ctx.assume("decision compared when |dH - ln u| exceeds the evaluation-error bound of the backend precision");
    let t = ctx.tier;
    ctx.section("step", "every row of every traced step: proposal = L reference leapfrog steps from (x,p); accept <=> ln u <= H(x,p)-H(x',p'); position bitwise old-or-proposed", t.pick(8_000, 300_000), 16, strategy, check);
    ctx.section("row-independence+reversibility", "other rows replaced (ordinary / NaN / inf / 1e30 / far): row bitwise unchanged; row alone: within a few ulp; forward then backward from (x',-p') returns to (x,-p)", t.pick(4_000, 150_000), 16, meta_strategy, check_meta);
}

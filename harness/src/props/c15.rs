//! C15 — built-in densities, gradients and the isotropic proposal density match their
//! definitions.

use super::common::*;
use crate::engine::num::{Prng, R};
use crate::engine::{bx, fingerprint, no_panic, CheckResult, Cov, Ctx, Fail};
use crate::ensure;
use burn::prelude::*;
use mini_mcmc::distributions::{
    BatchedGradientTarget, DiffableGaussian2D, Gaussian2D, GradientTarget, IsotropicGaussian, Normalized, Proposal,
    Rosenbrock2D, RosenbrockND, Target,
};
use ndarray::{arr1, arr2};
use proptest::prelude::*;
use serde::{Deserialize, Serialize};
use std::f64::consts::PI;

// ---------------------------------------------------------------------------------------------
// 2-D Gaussians
// ---------------------------------------------------------------------------------------------

#[derive(Debug, Clone, Serialize, Deserialize)]
pub struct GaussCase {
    /// 0: T=f32/B=f32, 1: T=f64/B=f64, 2: T=f64/B=f32
    pub combo: u8,
    pub mean: [R; 2],
    /// eigenvalues and rotation of the covariance (construction keeps it SPD)
    pub lam1: R,
    pub cond: R,
    pub theta: R,
    /// points in units of the principal standard deviations
    pub pts: Vec<[R; 2]>,
}

fn gauss_strategy() -> BoxedStrategy<GaussCase> {
    let combo = 0u8..3;
    let mean = (-10.0f64..10.0, -10.0f64..10.0);
    let lam1 = prop_oneof![4 => Just(1.0f64), 4 => 0.01f64..100.0, 1 => Just(1e-4f64), 1 => Just(1e-8f64), 1 => Just(1e6f64)];
    let cond = prop_oneof![2 => Just(1.0f64), 3 => 1.0f64..10.0, 2 => 10.0f64..100.0, 1 => 100.0f64..1e4];
    let theta = prop_oneof![Just(0.0f64), 0.0f64..PI];
    let pt = (-10.0f64..10.0, -10.0f64..10.0);
    let pts = prop_oneof![3 => 1usize..4, 2 => 4usize..20, 1 => 20usize..=64].prop_flat_map(move |n| proptest::collection::vec(pt.clone(), n));
    bx((combo, mean, lam1, cond, theta, pts).prop_map(|(combo, mean, lam1, cond, theta, pts)| GaussCase {
        combo,
        mean: [R(mean.0), R(mean.1)],
        lam1: R(lam1),
        cond: R(cond),
        theta: R(theta),
        pts: pts.into_iter().map(|(a, b)| [R(a), R(b)]).collect(),
    }))
}

struct G2 {
    mean: [f64; 2],
    cov: [[f64; 2]; 2],
    prec: [[f64; 2]; 2],
    logdet: f64,
}

impl G2 {
    fn quad(&self, x: [f64; 2]) -> f64 {
        let d = [x[0] - self.mean[0], x[1] - self.mean[1]];
        d[0] * (self.prec[0][0] * d[0] + self.prec[0][1] * d[1]) + d[1] * (self.prec[1][0] * d[0] + self.prec[1][1] * d[1])
    }
    fn logp(&self, x: [f64; 2]) -> f64 {
        -(2.0 * PI).ln() - 0.5 * self.logdet - 0.5 * self.quad(x)
    }
    fn grad(&self, x: [f64; 2]) -> [f64; 2] {
        let d = [x[0] - self.mean[0], x[1] - self.mean[1]];
        [
            -(self.prec[0][0] * d[0] + self.prec[0][1] * d[1]),
            -(self.prec[1][0] * d[0] + self.prec[1][1] * d[1]),
        ]
    }
}

/// builds the case's Gaussian with entries rounded to the scalar type (f32 or f64) *first*, so
/// the reference describes exactly the distribution the library object was given
fn build_g2(c: &GaussCase, f32_params: bool) -> (G2, Vec<[f64; 2]>) {
    let rd = |x: f64| if f32_params { (x as f32) as f64 } else { x };
    let (l1, l2) = (c.lam1.0, c.lam1.0 / c.cond.0);
    let (s, co) = c.theta.0.sin_cos();
    let cov = [
        [rd(co * co * l1 + s * s * l2), rd(co * s * (l1 - l2))],
        [rd(co * s * (l1 - l2)), rd(s * s * l1 + co * co * l2)],
    ];
    let mean = [rd(c.mean[0].0), rd(c.mean[1].0)];
    let det = cov[0][0] * cov[1][1] - cov[0][1] * cov[1][0];
    let prec = [[cov[1][1] / det, -cov[0][1] / det], [-cov[1][0] / det, cov[0][0] / det]];
    let g = G2 {
        mean,
        cov,
        prec,
        logdet: det.ln(),
    };
    // points: mean + R diag(sqrt(lam)) z
    let pts = c
        .pts
        .iter()
        .map(|z| {
            let (a, b) = (l1.sqrt() * z[0].0, l2.sqrt() * z[1].0);
            [rd(mean[0] + co * a - s * b), rd(mean[1] + s * a + co * b)]
        })
        .collect();
    (g, pts)
}

fn gauss_generic<T, B>(c: &GaussCase, cov: &mut Cov, t_is_f32: bool, b_is_f32: bool) -> CheckResult
where
    T: ndarray::NdFloat + num_traits::FloatConst + burn::tensor::Element + burn::tensor::ElementConversion + num_traits::FromPrimitive,
    B: burn::tensor::backend::AutodiffBackend,
{
    let (g, pts) = build_g2(c, t_is_f32);
    let det = g.cov[0][0] * g.cov[1][1] - g.cov[0][1] * g.cov[1][0];
    if !(det > 0.0) {
        cov.class("rounded-covariance-not-spd-skip");
        return Ok(());
    }
    // actual condition number of the rounded matrix
    let tr = g.cov[0][0] + g.cov[1][1];
    let disc = (tr * tr / 4.0 - det).max(0.0).sqrt();
    let cond = (tr / 2.0 + disc) / (tr / 2.0 - disc).max(1e-300);
    let t = |x: f64| T::from_f64(x).unwrap();
    let eps_t = if t_is_f32 { f32::EPSILON as f64 } else { f64::EPSILON };
    let eps_b = if b_is_f32 { f32::EPSILON as f64 } else { f64::EPSILON };
    if cond * (f32::EPSILON as f64) > 2e-3 {
        cov.class("ill-conditioned-for-precision-skip");
        return Ok(());
    }

    // ---- Gaussian2D (pure scalar code in T) ----
    let lib = Gaussian2D::<T> {
        mean: arr1(&[t(g.mean[0]), t(g.mean[1])]),
        cov: arr2(&[[t(g.cov[0][0]), t(g.cov[0][1])], [t(g.cov[1][0]), t(g.cov[1][1])]]),
    };
    let norm_const = -(2.0 * PI).ln() - 0.5 * g.logdet;
    for x in &pts {
        let xt = [t(x[0]), t(x[1])];
        let lp: f64 = num_traits::ToPrimitive::to_f64(&<Gaussian2D<T> as Normalized<T, T>>::logp(&lib, &xt)).unwrap();
        let ul: f64 = num_traits::ToPrimitive::to_f64(&<Gaussian2D<T> as Target<T, T>>::unnorm_logp(&lib, &xt)).unwrap();
        let q = g.quad(*x);
        // error model: the quadratic form is computed from a determinant with relative error
        // ~ cond*eps and products of size |x|^2/lambda_min
        let tol_q = 40.0 * eps_t * cond * (q.abs() + 1.0);
        cov.track_max("gauss2d_dev_over_tol", (ul + 0.5 * q).abs() / tol_q);
        ensure!((ul + 0.5 * q).abs() <= tol_q, "gauss2d-unnorm", "Gaussian2D::unnorm_logp({:?}) = {ul}, closed form {} (cond {cond:.1})", x, -0.5 * q);
        let want = g.logp(*x);
        ensure!(
            (lp - want).abs() <= tol_q + 40.0 * eps_t * cond * (1.0 + norm_const.abs()),
            "gauss2d-logp",
            "Gaussian2D::logp({:?}) = {lp}, closed form {want} (cond {cond:.1})",
            x
        );
        ensure!(
            ((lp - ul) - norm_const).abs() <= 2.0 * tol_q + 40.0 * eps_t * cond * (1.0 + norm_const.abs()),
            "gauss2d-constant",
            "logp - unnorm_logp = {} at {:?}, expected the constant -ln(2 pi) - 0.5 ln det = {norm_const}",
            lp - ul,
            x
        );
    }

    // ---- DiffableGaussian2D (tensor code on backend B) ----
    let dg = DiffableGaussian2D::<T>::new([t(g.mean[0]), t(g.mean[1])], [[t(g.cov[0][0]), t(g.cov[0][1])], [t(g.cov[1][0]), t(g.cov[1][1])]]);
    let f = |x: T| num_traits::ToPrimitive::to_f64(&x).unwrap();
    for i in 0..2 {
        for j in 0..2 {
            ensure!(
                (f(dg.inv_cov[i][j]) - g.prec[i][j]).abs() <= 40.0 * eps_t * cond * g.prec[i][j].abs().max(g.prec[0][0].abs().min(g.prec[1][1].abs())),
                "diffgauss-invcov",
                "inv_cov[{i}][{j}] = {} vs closed form {}",
                f(dg.inv_cov[i][j]),
                g.prec[i][j]
            );
        }
    }
    ensure!((f(dg.logdet_cov) - g.logdet).abs() <= 40.0 * eps_t * cond * (1.0 + g.logdet.abs()), "diffgauss-logdet", "logdet_cov = {} vs {}", f(dg.logdet_cov), g.logdet);
    ensure!((f(dg.norm_const) - norm_const).abs() <= 40.0 * eps_t * cond * (1.0 + norm_const.abs()), "diffgauss-normconst", "norm_const = {} vs {}", f(dg.norm_const), norm_const);

    // The tensor code builds its constants with `Tensor::from_floats`, which stores f32 values
    // on every backend: the tensor-based targets deliver f32-level accuracy (as the property's
    // quantifier says), so the error model below uses eps32 throughout.
    let _ = (eps_b, b_is_f32);
    let eps = f32::EPSILON as f64;
    let flat: Vec<f64> = pts.iter().flat_map(|p| p.iter().cloned()).collect();
    let n = pts.len();
    let batch = tensor2::<B>(&flat, n, 2);
    let lb = no_panic(|| to_vec(&<DiffableGaussian2D<T> as BatchedGradientTarget<T, B>>::unnorm_logp_batch(&dg, batch.clone())))
        .map_err(|m| Fail::new("diffgauss-panic", format!("unnorm_logp_batch panicked: {m}")))?;
    ensure!(lb.len() == n, "diffgauss-shape", "batched logp has {} entries for {n} rows", lb.len());
    // gradient of the batched density, the way HMC obtains it
    let pos = batch.clone().detach().require_grad();
    let lpb = <DiffableGaussian2D<T> as BatchedGradientTarget<T, B>>::unnorm_logp_batch(&dg, pos.clone());
    let gb = to_vec(&Tensor::<B, 2>::from_inner(pos.grad(&lpb.backward()).unwrap()));
    for (r, x) in pts.iter().enumerate() {
        let want = g.logp(*x);
        let gw = g.grad(*x);
        // forward error bound: every input (point, mean, precision entries) carries a relative
        // f32 rounding error; M collects the magnitudes of the terms they feed
        let d = [x[0] - g.mean[0], x[1] - g.mean[1]];
        let dx = [eps * (x[0].abs() + g.mean[0].abs() + d[0].abs()), eps * (x[1].abs() + g.mean[1].abs() + d[1].abs())];
        let mut m_lp = eps * (1.0 + norm_const.abs());
        let mut m_g = [0.0f64; 2];
        for k in 0..2 {
            for j in 0..2 {
                let pa = g.prec[k][j].abs();
                m_lp += pa * (d[k].abs() * dx[j] + dx[k] * d[j].abs() + 2.0 * eps * d[k].abs() * d[j].abs());
                m_g[k] += pa * (dx[j] + 2.0 * eps * d[j].abs());
            }
        }
        let tol = 8.0 * cond.sqrt().max(1.0) * m_lp;
        cov.track_max("diffgauss_dev_over_tol", (lb[r] - want).abs() / tol);
        ensure!((lb[r] - want).abs() <= tol, "diffgauss-batch", "unnorm_logp_batch row {r} at {:?} = {}, closed form {want} (tol {tol:e})", x, lb[r]);
        let single = <DiffableGaussian2D<T> as GradientTarget<T, B>>::unnorm_logp(&dg, tensor1::<B>(x));
        let sv = to_vec(&single)[0];
        ensure!((sv - want).abs() <= tol, "diffgauss-single", "single-point logp {sv} vs closed form {want} at {:?}", x);
        ensure!((sv - lb[r]).abs() <= tol, "diffgauss-single-vs-batch", "single-point logp {sv} vs batched row {r} {} at {:?}", lb[r], x);
        let (lp2, gr) = <DiffableGaussian2D<T> as GradientTarget<T, B>>::unnorm_logp_and_grad(&dg, tensor1::<B>(x));
        ensure!((to_vec(&lp2)[0] - sv).abs() <= tol, "diffgauss-and-grad-value", "unnorm_logp_and_grad value {} vs unnorm_logp {sv}", to_vec(&lp2)[0]);
        let gr = to_vec(&gr);
        for k in 0..2 {
            let tolg = 8.0 * cond.sqrt().max(1.0) * m_g[k] + 1e-300;
            cov.track_max("diffgauss_grad_dev_over_tol", (gr[k] - gw[k]).abs() / tolg);
            ensure!((gr[k] - gw[k]).abs() <= tolg, "diffgauss-grad", "gradient[{k}] at {:?} = {} vs closed form {} (tol {tolg:e})", x, gr[k], gw[k]);
            ensure!((gb[2 * r + k] - gw[k]).abs() <= tolg, "diffgauss-batch-grad", "batched gradient[{r}][{k}] = {} vs closed form {}", gb[2 * r + k], gw[k]);
        }
    }
    cov.class(match c.combo {
        0 => "T=f32,B=f32",
        1 => "T=f64,B=f64",
        _ => "T=f64,B=f32",
    });
    if g.cov[0][1] != 0.0 {
        cov.nontrivial_u64(fingerprint(c));
    }
    Ok(())
}

fn check_gauss(c: &GaussCase, cov: &mut Cov) -> CheckResult {
    match c.combo {
        0 => gauss_generic::<f32, B32>(c, cov, true, true),
        1 => gauss_generic::<f64, B64>(c, cov, false, false),
        _ => gauss_generic::<f64, B32>(c, cov, false, true),
    }
}

// ---------------------------------------------------------------------------------------------
// Rosenbrock
// ---------------------------------------------------------------------------------------------

#[derive(Debug, Clone, Serialize, Deserialize)]
pub struct RosenCase {
    pub f64: bool,
    pub a: R,
    pub b: R,
    pub dim: usize,
    pub rows: usize,
    pub data_seed: u64,
}

fn rosen_strategy() -> BoxedStrategy<RosenCase> {
    bx((any::<bool>(), -2.0f64..3.0, prop_oneof![Just(100.0f64), 0.1f64..200.0], 2usize..=32, 1usize..=64, any::<u64>()).prop_map(
        |(f64, a, b, dim, rows, data_seed)| RosenCase {
            f64,
            a: R(a),
            b: R(b),
            dim,
            rows,
            data_seed,
        },
    ))
}

fn rosen_generic<T, B>(c: &RosenCase, cov: &mut Cov, is_f32: bool) -> CheckResult
where
    T: num_traits::Float + burn::tensor::Element + num_traits::FromPrimitive,
    B: burn::tensor::backend::AutodiffBackend,
{
    let rd = |x: f64| if is_f32 { (x as f32) as f64 } else { x };
    let eps = if is_f32 { f32::EPSILON as f64 } else { f64::EPSILON };
    let mut rng = Prng::new(c.data_seed);
    let (a, b) = (rd(c.a.0), rd(c.b.0));
    // ---- 2-D ----
    let r2 = Rosenbrock2D::<T> {
        a: T::from_f64(a).unwrap(),
        b: T::from_f64(b).unwrap(),
    };
    let pts: Vec<[f64; 2]> = (0..c.rows).map(|_| [rd(2.0 * rng.normal()), rd(2.0 * rng.normal())]).collect();
    let flat: Vec<f64> = pts.iter().flat_map(|p| p.iter().cloned()).collect();
    let pos = tensor2::<B>(&flat, c.rows, 2).require_grad();
    let lpb = <Rosenbrock2D<T> as BatchedGradientTarget<T, B>>::unnorm_logp_batch(&r2, pos.clone());
    let lb = to_vec(&lpb);
    let gb = to_vec(&Tensor::<B, 2>::from_inner(pos.grad(&lpb.backward()).unwrap()));
    ensure!(lb.len() == c.rows, "rosen2d-shape", "batched logp has {} entries for {} rows", lb.len(), c.rows);
    for (r, p) in pts.iter().enumerate() {
        let (x, y) = (p[0], p[1]);
        let t1 = (a - x) * (a - x);
        let t2 = b * (y - x * x) * (y - x * x);
        let want = -(t1 + t2);
        let mag = t1 + t2 + b * (y * y + x * x * x * x) * 1.0 + 1.0;
        let tol = 30.0 * eps * mag;
        ensure!((lb[r] - want).abs() <= tol, "rosen2d-batch", "Rosenbrock2D batch row {r} at ({x},{y}) = {}, definition {want}", lb[r]);
        let single = to_vec(&<Rosenbrock2D<T> as GradientTarget<T, B>>::unnorm_logp(&r2, tensor1::<B>(p)));
        ensure!(single.len() == 1 && (single[0] - want).abs() <= tol, "rosen2d-single", "Rosenbrock2D single at ({x},{y}) = {:?}, definition {want}", single);
        let (_, gr) = <Rosenbrock2D<T> as GradientTarget<T, B>>::unnorm_logp_and_grad(&r2, tensor1::<B>(p));
        let gr = to_vec(&gr);
        let gw = [2.0 * (a - x) + 4.0 * b * x * (y - x * x), -2.0 * b * (y - x * x)];
        let gmag = 2.0 * (a.abs() + x.abs()) + 4.0 * b * x.abs() * (y.abs() + x * x) + 2.0 * b * (y.abs() + x * x) + 1.0;
        for k in 0..2 {
            ensure!((gr[k] - gw[k]).abs() <= 30.0 * eps * gmag, "rosen2d-grad", "Rosenbrock2D gradient[{k}] at ({x},{y}) = {}, true {}", gr[k], gw[k]);
            ensure!((gb[2 * r + k] - gw[k]).abs() <= 30.0 * eps * gmag, "rosen2d-batch-grad", "Rosenbrock2D batched gradient[{r}][{k}] = {}, true {}", gb[2 * r + k], gw[k]);
        }
    }
    // ---- N-D ----
    let d = c.dim;
    let ptsn: Vec<Vec<f64>> = (0..c.rows).map(|_| (0..d).map(|_| rd(1.5 * rng.normal())).collect()).collect();
    let flat: Vec<f64> = ptsn.iter().flat_map(|p| p.iter().cloned()).collect();
    let pos = tensor2::<B>(&flat, c.rows, d).require_grad();
    let lpb = <RosenbrockND as BatchedGradientTarget<T, B>>::unnorm_logp_batch(&RosenbrockND {}, pos.clone());
    let lb = to_vec(&lpb);
    let gb = to_vec(&Tensor::<B, 2>::from_inner(pos.grad(&lpb.backward()).unwrap()));
    ensure!(lb.len() == c.rows, "rosennd-shape", "batched logp has {} entries for {} rows", lb.len(), c.rows);
    for (r, x) in ptsn.iter().enumerate() {
        let mut want = 0.0;
        let mut mag = 1.0;
        let mut gw = vec![0.0; d];
        let mut gmag = vec![1.0; d];
        for i in 0..d - 1 {
            let u = x[i + 1] - x[i] * x[i];
            want -= 100.0 * u * u + (1.0 - x[i]) * (1.0 - x[i]);
            mag += 100.0 * (x[i + 1].abs() + x[i] * x[i]).powi(2) + (1.0 + x[i].abs()).powi(2);
            gw[i] += 400.0 * x[i] * u + 2.0 * (1.0 - x[i]);
            gw[i + 1] += -200.0 * u;
            let um = x[i + 1].abs() + x[i] * x[i];
            gmag[i] += 400.0 * x[i].abs() * um + 2.0 * (1.0 + x[i].abs());
            gmag[i + 1] += 200.0 * um;
        }
        ensure!((lb[r] - want).abs() <= 30.0 * eps * mag, "rosennd-batch", "RosenbrockND row {r} (dim {d}) = {}, definition {want}", lb[r]);
        for k in 0..d {
            ensure!(
                (gb[r * d + k] - gw[k]).abs() <= 60.0 * eps * gmag[k],
                "rosennd-grad",
                "RosenbrockND gradient[{r}][{k}] (dim {d}) = {}, true {}",
                gb[r * d + k],
                gw[k]
            );
        }
    }
    cov.class(if is_f32 { "f32" } else { "f64" });
    cov.nontrivial_u64(fingerprint(c));
    Ok(())
}

fn check_rosen(c: &RosenCase, cov: &mut Cov) -> CheckResult {
    if c.f64 {
        rosen_generic::<f64, B64>(c, cov, false)
    } else {
        rosen_generic::<f32, B32>(c, cov, true)
    }
}

// ---------------------------------------------------------------------------------------------
// IsotropicGaussian
// ---------------------------------------------------------------------------------------------

#[derive(Debug, Clone, Serialize, Deserialize)]
pub struct IsoCase {
    pub f32: bool,
    pub std: R,
    pub dim: usize,
    pub seed: u64,
    pub seed2: u64,
    pub data_seed: u64,
}

fn iso_strategy() -> BoxedStrategy<IsoCase> {
    let std = prop_oneof![2 => Just(1.0f64), 3 => 0.001f64..1.0, 3 => 1.0f64..1000.0, 1 => Just(2.0f64), 1 => Just(0.5f64)];
    bx((any::<bool>(), std, prop_oneof![3 => 1usize..4, 2 => 4usize..=32], any::<u64>(), any::<u64>(), any::<u64>()).prop_map(
        |(f32, std, dim, seed, seed2, data_seed)| IsoCase {
            f32,
            std: R(std),
            dim,
            seed,
            seed2,
            data_seed,
        },
    ))
}

fn iso_generic<T>(c: &IsoCase, cov: &mut Cov, is_f32: bool) -> CheckResult
where
    T: num_traits::Float + std::ops::AddAssign + num_traits::FromPrimitive + std::fmt::Debug,
    rand_distr::StandardNormal: rand_distr::Distribution<T>,
{
    let rd = |x: f64| if is_f32 { (x as f32) as f64 } else { x };
    let t = |x: f64| T::from_f64(x).unwrap();
    let f = |x: T| num_traits::ToPrimitive::to_f64(&x).unwrap();
    let eps = if is_f32 { f32::EPSILON as f64 } else { f64::EPSILON };
    let std = rd(c.std.0);
    let d = c.dim;
    let mut rng = Prng::new(c.data_seed);
    let prop = IsotropicGaussian::<T>::new(t(std)).set_seed(c.seed);
    // ---- logp(from, to) is the normalised density of N(from, std^2 I) ----
    for _ in 0..8 {
        let from: Vec<f64> = (0..d).map(|_| rd(5.0 * rng.normal())).collect();
        let to: Vec<f64> = from.iter().map(|x| rd(x + std * 3.0 * rng.normal())).collect();
        let ft: Vec<T> = from.iter().map(|x| t(*x)).collect();
        let tt: Vec<T> = to.iter().map(|x| t(*x)).collect();
        let lp = f(prop.logp(&ft, &tt));
        let lp_rev = f(prop.logp(&tt, &ft));
        let quad: f64 = from.iter().zip(&to).map(|(a, b)| (b - a) * (b - a)).sum::<f64>() / (2.0 * std * std);
        let want = -quad - 0.5 * d as f64 * (2.0 * PI * std * std).ln();
        // cancellation in (to - from) for |from| >> std is a property of the inputs, bound it
        let cancel: f64 = from.iter().zip(&to).map(|(a, b)| 4.0 * eps * (a.abs() + b.abs()) * (b - a).abs() / (2.0 * std * std)).sum();
        let tol = 20.0 * eps * (quad + d as f64 * (1.0 + (2.0 * PI * std * std).ln().abs())) + cancel;
        if (lp - want).abs() > tol {
            // distinguish "wrong constant" from "wrong shape"
            let off = lp - want;
            return Err(Fail::new(
                "iso-logp-value",
                format!("IsotropicGaussian(std={std}).logp(from,to) in dim {d} = {lp}, normalised log-density = {want} (offset {off:+.6})"),
            ));
        }
        ensure!((lp - lp_rev).abs() <= tol, "iso-logp-symmetry", "logp(from,to) = {lp} but logp(to,from) = {lp_rev}");
    }
    // ---- independent of the closed form: the density integrates to one (d = 1, 2) ----
    if d <= 2 {
        let m = if d == 1 { 4001 } else { 301 };
        let span = 10.0 * std;
        let h = 2.0 * span / (m as f64 - 1.0);
        let from: Vec<f64> = (0..d).map(|_| rd(rng.normal())).collect();
        let ft: Vec<T> = from.iter().map(|x| t(*x)).collect();
        let mut total = 0.0;
        if d == 1 {
            for i in 0..m {
                let x = from[0] - span + h * i as f64;
                total += f(prop.logp(&ft, &[t(x)])).exp() * h;
            }
        } else {
            for i in 0..m {
                for j in 0..m {
                    let x = from[0] - span + h * i as f64;
                    let y = from[1] - span + h * j as f64;
                    total += f(prop.logp(&ft, &[t(x), t(y)])).exp() * h * h;
                }
            }
        }
        cov.track_max("integral_dev", (total - 1.0).abs());
        ensure!(
            (total - 1.0).abs() <= if is_f32 { 2e-3 } else { 1e-6 },
            "iso-logp-integral",
            "exp(logp(from, .)) integrates to {total} over +-10 sd in dim {d} (std {std})"
        );
        cov.class("quadrature");
    }
    // ---- sample(): mean `from`, variance std^2, reproducible ----
    let mut p1 = IsotropicGaussian::<T>::new(t(std)).set_seed(c.seed);
    let mut p2 = IsotropicGaussian::<T>::new(t(std)).set_seed(c.seed);
    let from: Vec<f64> = (0..d).map(|_| rd(rng.normal())).collect();
    let ft: Vec<T> = from.iter().map(|x| t(*x)).collect();
    let n_draws = (6000 / d).max(300);
    let mut s1 = 0.0f64;
    let mut s2 = 0.0f64;
    let mut cnt = 0.0f64;
    let mut first: Vec<f64> = vec![];
    for k in 0..n_draws {
        let a = no_panic(|| p1.sample(&ft)).map_err(|m| Fail::new("iso-sample-panic", format!("sample panicked: {m}")))?;
        let b = p2.sample(&ft);
        ensure!(a.len() == d, "iso-sample-shape", "sample of a {d}-vector has length {}", a.len());
        ensure!(a.iter().zip(&b).all(|(x, y)| f(*x).to_bits() == f(*y).to_bits()), "iso-seed-reproducible", "two proposals with seed {} disagree at draw {k}", c.seed);
        if k == 0 {
            first = a.iter().map(|x| f(*x)).collect();
        }
        for (x, m) in a.iter().zip(&from) {
            let z = (f(*x) - m) / std;
            s1 += z;
            s2 += z * z;
            cnt += 1.0;
        }
    }
    let z_mean = s1 / cnt.sqrt();
    let z_var = (s2 / cnt - 1.0) / (2.0 / cnt).sqrt();
    cov.track_max("sample_abs_z", z_mean.abs().max(z_var.abs()));
    ensure!(z_mean.abs() <= 6.5, "iso-sample-mean", "(sample - from)/std has mean z = {z_mean:.2} over {cnt} coordinates (std {std})");
    ensure!(z_var.abs() <= 6.5, "iso-sample-variance", "(sample - from)/std has second moment {} (z = {z_var:.2}) over {cnt} coordinates", s2 / cnt);
    if c.seed != c.seed2 {
        let mut p3 = IsotropicGaussian::<T>::new(t(std)).set_seed(c.seed2);
        let o: Vec<f64> = p3.sample(&ft).iter().map(|x| f(*x)).collect();
        ensure!(o != first, "iso-seed-ignored", "seeds {} and {} give the same first draw", c.seed, c.seed2);
    }
    // ---- `std` is a public field: after it is reassigned, logp must describe what sample() draws
    {
        let std2 = rd(std * 3.5);
        let mut q = IsotropicGaussian::<T>::new(t(std)).set_seed(c.seed2);
        q.std = t(std2);
        let from: Vec<f64> = (0..d).map(|_| rd(rng.normal())).collect();
        let to: Vec<f64> = from.iter().map(|x| rd(x + std2 * rng.normal())).collect();
        let ft: Vec<T> = from.iter().map(|x| t(*x)).collect();
        let tt: Vec<T> = to.iter().map(|x| t(*x)).collect();
        let lp = f(q.logp(&ft, &tt));
        let quad: f64 = from.iter().zip(&to).map(|(a, b)| (b - a) * (b - a)).sum::<f64>() / (2.0 * std2 * std2);
        let want = -quad - 0.5 * d as f64 * (2.0 * PI * std2 * std2).ln();
        let cancel: f64 = from.iter().zip(&to).map(|(a, b)| 4.0 * eps * (a.abs() + b.abs()) * (b - a).abs() / (2.0 * std2 * std2)).sum();
        let tol = 20.0 * eps * (quad + d as f64 * (1.0 + (2.0 * PI * std2 * std2).ln().abs())) + cancel;
        ensure!(
            (lp - want).abs() <= tol,
            "iso-logp-stale-after-std-change",
            "after `proposal.std = {std2}` (constructed with {std}) logp(from,to) in dim {d} = {lp}, normalised log-density of N(from, std^2 I) = {want}"
        );
        // sample() follows the new std too
        let mut s2 = 0.0f64;
        let mut cnt = 0.0f64;
        for _ in 0..(2000 / d).max(100) {
            for (x, m) in q.sample(&ft).iter().zip(&from) {
                let z = (f(*x) - m) / std2;
                s2 += z * z;
                cnt += 1.0;
            }
        }
        let zv = (s2 / cnt - 1.0) / (2.0 / cnt).sqrt();
        ensure!(zv.abs() <= 6.5, "iso-sample-variance", "after `std` was reassigned, (sample - from)/std has second moment {} (z = {zv:.2})", s2 / cnt);
    }
    // ---- set_seed rewinds the stream, also when called again with the seed already in effect
    {
        let mut p = IsotropicGaussian::<T>::new(t(std)).set_seed(c.seed);
        let from: Vec<T> = (0..d).map(|_| t(0.0)).collect();
        let a1: Vec<u64> = p.sample(&from).iter().map(|x| f(*x).to_bits()).collect();
        let _ = p.sample(&from);
        p = p.set_seed(c.seed);
        let a2: Vec<u64> = p.sample(&from).iter().map(|x| f(*x).to_bits()).collect();
        ensure!(a1 == a2, "iso-seed-reproducible", "set_seed({}) followed by draws and set_seed({}) again does not replay the stream", c.seed, c.seed);
        let q = p.clone().set_seed(c.seed);
        let mut q = q;
        let a3: Vec<u64> = q.sample(&from).iter().map(|x| f(*x).to_bits()).collect();
        ensure!(a1 == a3, "iso-seed-reproducible", "a clone taken mid-stream and re-seeded with {} does not replay the stream", c.seed);
    }
    // ---- as a Target: -0.5 |x|^2 / std^2 ----
    let x: Vec<f64> = (0..d).map(|_| rd(std * 2.0 * rng.normal())).collect();
    let xt: Vec<T> = x.iter().map(|v| t(*v)).collect();
    let ul = f(<IsotropicGaussian<T> as Target<T, T>>::unnorm_logp(&prop, &xt));
    let want = -0.5 * x.iter().map(|v| v * v).sum::<f64>() / (std * std);
    ensure!((ul - want).abs() <= 20.0 * eps * (want.abs() + 1.0), "iso-target", "IsotropicGaussian::unnorm_logp = {ul}, -|x|^2/(2 std^2) = {want}");
    cov.class(if is_f32 { "f32" } else { "f64" });
    if std != 1.0 || d >= 2 {
        cov.nontrivial_u64(fingerprint(c));
    }
    Ok(())
}

fn check_iso(c: &IsoCase, cov: &mut Cov) -> CheckResult {
    if c.f32 {
        iso_generic::<f32>(c, cov, true)
    } else {
        iso_generic::<f64>(c, cov, false)
    }
}

pub fn run(ctx: &mut Ctx) {
    ctx.rule = "means, SPD covariances built from eigenvalues/rotation (cond <= 1e4, skipped when cond*eps > 2e-3), points within 10 sd, batches 1..64, std in (1e-3,1e3), dims 1..32, (T,backend) in {(f32,f32),(f64,f64),(f64,f32)}; non-trivial = correlated covariance / std != 1 or dim >= 2 / any Rosenbrock case; distinct by case fingerprint".into();
    ctx.assume("tolerances are multiples (20..60) of eps*cond*magnitude of the intermediate terms; observed maxima recorded in evidence");
    let t = ctx.tier;
    ctx.section("gaussian2d", "Gaussian2D logp/unnorm_logp and DiffableGaussian2D (constants, batched, single, gradient) vs closed form", t.pick(60_000, 2_000_000), 16, gauss_strategy, check_gauss);
    ctx.section("rosenbrock", "Rosenbrock2D batch/single/gradient and RosenbrockND batch/gradient vs definition", t.pick(30_000, 1_000_000), 16, rosen_strategy, check_rosen);
    ctx.section("isotropic", "IsotropicGaussian logp = normalised N(from, std^2 I) density (closed form, symmetry, quadrature), sample moments, set_seed reproducibility", t.pick(20_000, 600_000), 16, iso_strategy, check_iso);
}

//! C14 — started at a state of finite density, no sampler ever moves to a zero-density,
//! NaN-density or non-finite state; such candidates are rejected, the state is kept unchanged;
//! no panic, no hang.

use super::common::*;
use super::targets::{bounded_spec, HTarget, Spec};
use crate::engine::num::{Prng, R};
use crate::engine::{bx, fingerprint, no_panic, CheckResult, Cov, Ctx, Fail};
use crate::ensure;
use burn::tensor::backend::AutodiffBackend;
use mini_mcmc::core::MarkovChain;
use mini_mcmc::distributions::{IsotropicGaussian, Proposal, Target};
use mini_mcmc::hmc::HMC;
use mini_mcmc::metropolis_hastings::MHMarkovChain;
use mini_mcmc::nuts::NUTSChain;
use mini_mcmc::verif;
use proptest::prelude::*;
use rand_distr::{Exp1, StandardNormal};
use serde::{Deserialize, Serialize};

/// the bounded-support targets as plain MH targets (closed form, in F)
#[derive(Clone, Debug)]
struct MhTarget<F> {
    spec: Spec,
    _p: std::marker::PhantomData<F>,
}
impl<F: Fl> Target<F, F> for MhTarget<F> {
    fn unnorm_logp(&self, position: &[F]) -> F {
        let x: Vec<f64> = position.iter().map(|v| v.f()).collect();
        F::of(self.spec.logp(&x))
    }
}

/// the library's isotropic Gaussian shifted by a constant drift: q(y|x) = N(y; x + drift, std^2),
/// an asymmetric proposal (the Hastings term does not cancel) with its exact log-density
#[derive(Clone)]
struct Drifted<F: Fl>
where
    rand_distr::StandardNormal: rand_distr::Distribution<F>,
{
    inner: IsotropicGaussian<F>,
    drift: F,
}
impl<F: Fl> Proposal<F, F> for Drifted<F>
where
    rand_distr::StandardNormal: rand_distr::Distribution<F>,
{
    fn sample(&mut self, current: &[F]) -> Vec<F> {
        self.inner.sample(current).into_iter().map(|v| v + self.drift).collect()
    }
    fn logp(&self, from: &[F], to: &[F]) -> F {
        let shifted: Vec<F> = from.iter().map(|v| *v + self.drift).collect();
        self.inner.logp(&shifted, to)
    }
    fn set_seed(self, seed: u64) -> Self {
        Drifted { inner: self.inner.set_seed(seed), drift: self.drift }
    }
}

fn finite_density(spec: &Spec, x: &[f64]) -> bool {
    x.iter().all(|v| v.is_finite()) && spec.logp(x).is_finite()
}

// ---------------------------------------------------------------------------------------------
// Metropolis–Hastings
// ---------------------------------------------------------------------------------------------

#[derive(Debug, Clone, Serialize, Deserialize)]
pub struct MhCase {
    pub spec: Spec,
    pub f32: bool,
    pub std: R,
    pub prop_seed: u64,
    /// per step: 0 random k >= 1, 1 k = 1 (smallest positive u), 2 k = max
    pub steps: Vec<(u8, u64)>,
    pub data_seed: u64,
    /// drift of the proposal in tenths of its width (0 = the symmetric library proposal)
    #[serde(default)]
    pub drift_tenths: i8,
}

fn mh_strategy() -> BoxedStrategy<MhCase> {
    let std = prop_oneof![2 => 0.05f64..1.0, 3 => 1.0f64..10.0, 2 => 10.0f64..200.0];
    let step = (prop_oneof![3 => Just(0u8), 2 => Just(1u8), 1 => Just(2u8)], any::<u64>());
    bx((bounded_spec(), any::<bool>(), std, any::<u64>(), proptest::collection::vec(step, 1..50), any::<u64>(), prop_oneof![1 => Just(0i8), 1 => -20i8..=20]).prop_map(
        |(spec, f32, std, prop_seed, steps, data_seed, drift_tenths)| MhCase {
            drift_tenths,
            spec,
            f32,
            std: R(std),
            prop_seed,
            steps,
            data_seed,
        },
    ))
}

fn mh_generic<F: Fl>(c: &MhCase, cov: &mut Cov) -> CheckResult
where
    rand_distr::StandardUniform: rand_distr::Distribution<F>,
    rand_distr::StandardNormal: rand_distr::Distribution<F>,
{
    let mut rng = Prng::new(c.data_seed);
    let start: Vec<F> = c.spec.interior_point(&mut rng).iter().map(|v| F::of(*v)).collect();
    let sx: Vec<f64> = start.iter().map(|v| v.f()).collect();
    if !finite_density(&c.spec, &sx) {
        cov.class("start-rounded-out-of-support-skip");
        return Ok(());
    }
    let target = MhTarget::<F> {
        spec: c.spec.clone(),
        _p: std::marker::PhantomData,
    };
    let proposal = Drifted {
        inner: IsotropicGaussian::<F>::new(F::of(c.std.0)).set_seed(c.prop_seed),
        drift: F::of(c.std.0 * c.drift_tenths as f64 / 10.0),
    };
    let mut chain: MHMarkovChain<F, F, _, _> = MHMarkovChain::new(target, proposal, start);
    let kmax = (1u64 << F::BITS) - 1;
    let mut bad_candidates = 0;
    for (i, (sel, kraw)) in c.steps.iter().enumerate() {
        let x = chain.current_state.clone();
        let y = chain.proposal.clone().sample(&x);
        let yf: Vec<f64> = y.iter().map(|v| v.f()).collect();
        let y_ok = finite_density(&c.spec, &yf);
        // u = 0 is excepted by the property: k >= 1
        let k = match sel {
            1 => 1,
            2 => kmax,
            _ => (kraw & kmax).max(1),
        };
        chain.rng = F::crafted(k, *kraw);
        let ret = no_panic(|| chain.step().clone()).map_err(|m| Fail::new("mh-panic", format!("MH step panicked on an out-of-support candidate: {m}")))?;
        let rf: Vec<f64> = ret.iter().map(|v| v.f()).collect();
        if !y_ok {
            bad_candidates += 1;
            ensure!(
                ret.iter().zip(&x).all(|(a, b)| a.f().to_bits() == b.f().to_bits()),
                "mh-moved-to-bad-state",
                "MH step {i} ({}): candidate {:?} has log-density {} but the chain moved from {:?} to {:?} (u = {k}*2^-{})",
                c.spec.name(),
                yf,
                c.spec.logp(&yf),
                x,
                rf,
                F::BITS
            );
        }
        ensure!(finite_density(&c.spec, &rf), "mh-moved-to-bad-state", "MH step {i} ({}): state {:?} has log-density {}", c.spec.name(), rf, c.spec.logp(&rf));
        cov.evals(1);
    }
    cov.class(c.spec.name());
    cov.class(if c.drift_tenths == 0 { "symmetric-proposal" } else { "asymmetric-proposal(drift)" });
    cov.class_n("candidates-out-of-support", bad_candidates);
    if bad_candidates > 0 {
        cov.nontrivial_u64(fingerprint(c));
    }
    Ok(())
}

fn check_mh(c: &MhCase, cov: &mut Cov) -> CheckResult {
    if c.f32 {
        mh_generic::<f32>(c, cov)
    } else {
        mh_generic::<f64>(c, cov)
    }
}

// ---------------------------------------------------------------------------------------------
// HMC
// ---------------------------------------------------------------------------------------------

#[derive(Debug, Clone, Serialize, Deserialize)]
pub struct HmcCase {
    pub spec: Spec,
    pub f64_backend: bool,
    pub chains: usize,
    pub n_leapfrog: usize,
    /// log10 of the step size
    pub log_eps: R,
    pub steps: usize,
    pub inject: bool,
    pub pscale: R,
    pub seed: u64,
    pub data_seed: u64,
}

fn hmc_strategy() -> BoxedStrategy<HmcCase> {
    // step sizes from 1e-3 up to overflow
    let log_eps = prop_oneof![3 => -3.0f64..0.5, 3 => 0.5f64..4.0, 2 => 4.0f64..38.0, 1 => 38.0f64..38.5, 1 => 38.5f64..300.0];
    bx((
        bounded_spec(),
        any::<bool>(),
        1usize..=6,
        prop_oneof![2 => Just(1usize), 3 => 2usize..8],
        log_eps,
        1usize..=6,
        any::<bool>(),
        prop_oneof![3 => Just(1.0f64), 1 => 1.0f64..1e3],
        any::<u64>(),
        any::<u64>(),
    )
        .prop_map(|(spec, f64_backend, chains, n_leapfrog, log_eps, steps, inject, pscale, seed, data_seed)| HmcCase {
            spec,
            f64_backend,
            chains,
            n_leapfrog,
            log_eps: R(log_eps),
            steps,
            inject,
            pscale: R(pscale),
            seed,
            data_seed,
        }))
}

fn hmc_generic<T, B>(c: &HmcCase, cov: &mut Cov) -> CheckResult
where
    T: num_traits::Float + burn::tensor::ElementConversion + burn::tensor::Element + rand_distr::uniform::SampleUniform + num_traits::FromPrimitive,
    B: AutodiffBackend,
    StandardNormal: rand::distr::Distribution<T>,
    rand_distr::StandardUniform: rand_distr::Distribution<T>,
{
    let dim = c.spec.dim();
    let n = c.chains;
    let eps = 10f64.powf(c.log_eps.0);
    let Some(eps_t) = T::from_f64(eps).filter(|e| e.is_finite()) else {
        // not representable as a finite step size in T
        cov.class("eps-overflows-T-skip");
        return Ok(());
    };
    let mut rng = Prng::new(c.data_seed);
    let inits: Vec<Vec<T>> = (0..n).map(|_| c.spec.interior_point(&mut rng).iter().map(|v| T::from_f64(*v).unwrap()).collect()).collect();
    let mut sampler = HMC::<T, B, HTarget>::new(HTarget::new(c.spec.clone()), inits, eps_t, c.n_leapfrog).set_seed(c.seed);
    let start = to_vec(&sampler.positions);
    for r in 0..n {
        if !finite_density(&c.spec, &start[r * dim..(r + 1) * dim]) {
            cov.class("start-rounded-out-of-support-skip");
            return Ok(());
        }
    }
    let mut bad = 0u64;
    verif::hmc_clear_overrides();
    for s in 0..c.steps {
        if c.inject {
            verif::hmc_push_momenta((0..n * dim).map(|_| c.pscale.0 * rng.normal()).collect());
            // acceptance draws strictly inside (0,1), incl. the smallest positive ones
            verif::hmc_push_uniforms((0..n).map(|i| if (i + s) % 3 == 0 { f64::MIN_POSITIVE.max(1e-38) } else { rng.unif() }).collect());
        }
        verif::hmc_trace_start();
        let r = no_panic(|| sampler.step());
        let tr = verif::hmc_trace_take();
        verif::hmc_clear_overrides();
        r.map_err(|m| Fail::new("hmc-panic", format!("HMC::step panicked (eps = {eps:e}, {}): {m}", c.spec.name())))?;
        let rec = &tr[0];
        let after = to_vec(&sampler.positions);
        for row in 0..n {
            let x = &rec.positions_before[row * dim..(row + 1) * dim];
            let xp = &rec.proposed_positions[row * dim..(row + 1) * dim];
            let a = &after[row * dim..(row + 1) * dim];
            let cand_ok = finite_density(&c.spec, xp) && rec.proposed_momenta[row * dim..(row + 1) * dim].iter().all(|v| v.is_finite());
            if !cand_ok {
                bad += 1;
                ensure!(
                    a.iter().zip(x).all(|(p, q)| p.to_bits() == q.to_bits()),
                    "hmc-moved-to-bad-state",
                    "HMC step {s} row {row} ({}, eps = {eps:e}, L = {}): the proposal {:?} has log-density {} / non-finite coordinates, but the row changed from {:?} to {:?}",
                    c.spec.name(),
                    c.n_leapfrog,
                    xp,
                    c.spec.logp(xp),
                    x,
                    a
                );
            }
            ensure!(
                finite_density(&c.spec, a),
                "hmc-moved-to-bad-state",
                "HMC step {s} row {row} ({}, eps = {eps:e}): state {:?} has log-density {}",
                c.spec.name(),
                a,
                c.spec.logp(a)
            );
        }
        cov.evals(n as u64);
    }
    cov.class(c.spec.name());
    cov.class(if c.f64_backend { "f64" } else { "f32" });
    cov.class_n("proposals-bad", bad);
    if eps > 1e4 {
        cov.class("huge-step-size");
    }
    if bad > 0 {
        cov.nontrivial_u64(fingerprint(c));
    }
    Ok(())
}

fn check_hmc(c: &HmcCase, cov: &mut Cov) -> CheckResult {
    if c.f64_backend {
        hmc_generic::<f64, B64>(c, cov)
    } else {
        hmc_generic::<f32, B32>(c, cov)
    }
}

// ---------------------------------------------------------------------------------------------
// NUTS
// ---------------------------------------------------------------------------------------------

#[derive(Debug, Clone, Serialize, Deserialize)]
pub struct NutsCase {
    pub spec: Spec,
    pub f64_backend: bool,
    pub seed: u64,
    /// forced step sizes (log10), one per transition; empty => a real run(n_collect, n_discard)
    pub log_eps: Vec<R>,
    pub n_collect: usize,
    pub n_discard: usize,
    pub data_seed: u64,
}

fn nuts_strategy() -> BoxedStrategy<NutsCase> {
    let le = prop_oneof![3 => -2.0f64..0.5, 3 => 0.5f64..4.0, 2 => 4.0f64..38.0, 1 => 38.0f64..300.0];
    bx((
        bounded_spec(),
        any::<bool>(),
        any::<u64>(),
        prop_oneof![2 => Just(vec![]), 5 => proptest::collection::vec(le, 1..8)],
        2usize..10,
        0usize..12,
        any::<u64>(),
    )
        .prop_map(|(spec, f64_backend, seed, log_eps, n_collect, n_discard, data_seed)| NutsCase {
            spec,
            f64_backend,
            seed,
            log_eps: log_eps.into_iter().map(R).collect(),
            n_collect,
            n_discard,
            data_seed,
        }))
}

fn nuts_generic<T, B>(c: &NutsCase, cov: &mut Cov) -> CheckResult
where
    T: num_traits::Float + burn::tensor::ElementConversion + burn::tensor::Element + rand_distr::uniform::SampleUniform + num_traits::FromPrimitive,
    B: AutodiffBackend,
    StandardNormal: rand::distr::Distribution<T>,
    rand_distr::StandardUniform: rand_distr::Distribution<T>,
    Exp1: rand_distr::Distribution<T>,
{
    let mut rng = Prng::new(c.data_seed);
    let start: Vec<T> = c.spec.interior_point(&mut rng).iter().map(|v| T::from_f64(*v).unwrap()).collect();
    let sx: Vec<f64> = start.iter().map(|v| num_traits::ToPrimitive::to_f64(v).unwrap()).collect();
    if !finite_density(&c.spec, &sx) {
        cov.class("start-rounded-out-of-support-skip");
        return Ok(());
    }
    // the work bound of the harness: once used up the target turns all-NaN and trees stop
    let target = HTarget::with_budget(c.spec.clone(), 30_000);
    let mut chain = NUTSChain::<T, B, HTarget>::new(target.clone(), start, T::from_f64(0.8).unwrap()).set_seed(c.seed);
    let mut bad = 0u64;
    let check_rec = |rec: &verif::NutsStepRecord, i: usize, target: &HTarget| -> CheckResult {
        if target.exhausted() {
            return Ok(());
        }
        ensure!(
            finite_density(&c.spec, &rec.position_after),
            "nuts-moved-to-bad-state",
            "NUTS transition {i} ({}, eps = {:e}): state {:?} has log-density {} (previous state {:?})",
            c.spec.name(),
            rec.epsilon,
            rec.position_after,
            c.spec.logp(&rec.position_after),
            rec.position_before
        );
        Ok(())
    };
    if c.log_eps.is_empty() {
        verif::nuts_trace_start();
        let r = no_panic(|| chain.run(c.n_collect, c.n_discard));
        let tr = verif::nuts_trace_take();
        let out = r.map_err(|m| Fail::new("nuts-panic", format!("NUTSChain::run panicked on {}: {m}", c.spec.name())))?;
        for (i, rec) in tr.iter().enumerate() {
            check_rec(rec, i, &target)?;
            if rec.doublings.iter().any(|d| !d.s_prime) {
                bad += 1;
            }
        }
        if !target.exhausted() {
            let v = to_vec(&out);
            ensure!(v.iter().all(|x| x.is_finite()), "nuts-moved-to-bad-state", "NUTSChain::run returned non-finite draws on {}", c.spec.name());
        }
        cov.evals(tr.len() as u64);
        cov.class("real-run(find_reasonable_epsilon)");
    } else {
        for (i, le) in c.log_eps.iter().enumerate() {
            let eps = 10f64.powf(le.0);
            let Some(eps_t) = T::from_f64(eps).filter(|e| e.is_finite()) else {
                cov.class("eps-overflows-T-skip");
                continue;
            };
            chain.verif_set_epsilon(eps_t);
            let before = to_vec(&chain.position);
            verif::nuts_trace_start();
            let r = no_panic(|| chain.step());
            let tr = verif::nuts_trace_take();
            r.map_err(|m| Fail::new("nuts-panic", format!("NUTSChain::step panicked (eps = {eps:e}, {}): {m}", c.spec.name())))?;
            let rec = &tr[0];
            check_rec(rec, i, &target)?;
            if target.exhausted() {
                break;
            }
            let after = to_vec(&chain.position);
            let diverged = rec.doublings.iter().any(|d| !d.s_prime);
            if diverged {
                bad += 1;
            }
            // a transition none of whose sub-trees was adopted keeps the state bitwise
            if !rec.doublings.iter().any(|d| d.moved) {
                ensure!(after.iter().zip(&before).all(|(a, b)| a.to_bits() == b.to_bits()), "nuts-state-changed-without-adoption", "NUTS transition {i}: nothing adopted but the state changed");
            }
            if eps > 1e4 {
                cov.class("huge-step-size");
            }
            cov.evals(1);
        }
    }
    if target.exhausted() {
        cov.class("evaluation-budget-exhausted");
    }
    cov.class(c.spec.name());
    cov.class(if c.f64_backend { "f64" } else { "f32" });
    cov.class_n("transitions-with-stopped-subtree", bad);
    if bad > 0 {
        cov.nontrivial_u64(fingerprint(c));
    }
    Ok(())
}

fn check_nuts(c: &NutsCase, cov: &mut Cov) -> CheckResult {
    if c.f64_backend {
        nuts_generic::<f64, B64>(c, cov)
    } else {
        nuts_generic::<f32, B32>(c, cov)
    }
}

pub fn run(ctx: &mut Ctx) {
    ctx.rule = "targets with bounded support or NaN regions (half-line, box, k ln x - x, sqrt x - x; dims 1..3), starts strictly inside; MH with isotropic proposals of width 0.05..200 and injected u in (0,1) incl. 2^-53; HMC with step sizes 1e-3 .. overflow, L 1..8, injected and natural momenta, u > 0; NUTS with forced step sizes up to overflow and real runs (find_reasonable_epsilon from an interior point); histories of 1..50 steps; non-trivial = a history in which at least one candidate was out of support / NaN / non-finite (MH, HMC) or a sub-tree stopped (NUTS); distinct by case fingerprint".into();
    ctx.assume("acceptance draws equal to exactly 0 are excepted by the property and not generated");
    ctx.assume("hang clause: every case runs under a 60 s watchdog in a child process; a timeout is confirmed by re-running the case alone with twice the limit (NUTS cases additionally use the harness's evaluation budget, because the library has no tree-depth cap)");
    ctx.set_case_timeout(60.0);
    let t = ctx.tier;
    ctx.section("mh", "after every step: finite coordinates, finite log-density; out-of-support / NaN candidates leave the state bitwise unchanged; no panic", t.pick(40_000, 1_500_000), 16, mh_strategy, check_mh);
    ctx.section("hmc", "every row after every step: finite, finite log-density; rows whose proposal is bad are bitwise unchanged; no panic", t.pick(6_000, 200_000), 16, hmc_strategy, check_hmc);
    ctx.section("nuts", "every transition (forced step sizes and real runs): state finite with finite log-density; no panic; returns", t.pick(4_000, 120_000), 16, nuts_strategy, check_nuts);
}

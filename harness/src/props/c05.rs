//! C05 — one Gibbs step refreshes every coordinate exactly once, conditioning on the freshest
//! state; the step leaves the joint distribution of full conditionals invariant.

use crate::engine::num::R;
use crate::engine::{bx, fingerprint, no_panic, CheckResult, Cov, Ctx, Fail};
use crate::ensure;
use mini_mcmc::core::MarkovChain;
use mini_mcmc::distributions::Conditional;
use mini_mcmc::gibbs::{GibbsMarkovChain, GibbsSampler};
use proptest::prelude::*;
use serde::{Deserialize, Serialize};
use std::sync::{Arc, Mutex};

pub trait El: ndarray::LinalgScalar + PartialEq + std::fmt::Debug + Send + Sync {
    fn of(v: u64) -> Self;
    fn key(&self) -> u64;
    /// -0.0 for floats (None for integers)
    fn neg_zero() -> Option<Self> {
        None
    }
}
impl El for f64 {
    fn of(v: u64) -> Self {
        (v % 1_000_003) as f64 * 0.5 - 1000.0
    }
    fn key(&self) -> u64 {
        self.to_bits()
    }
    fn neg_zero() -> Option<Self> {
        Some(-0.0)
    }
}
impl El for f32 {
    fn of(v: u64) -> Self {
        (v % 65_521) as f32 * 0.25 - 100.0
    }
    fn key(&self) -> u64 {
        self.to_bits() as u64
    }
    fn neg_zero() -> Option<Self> {
        Some(-0.0)
    }
}
impl El for i32 {
    fn of(v: u64) -> Self {
        (v % 2_000_003) as i32 - 1_000_000
    }
    fn key(&self) -> u64 {
        *self as u32 as u64
    }
}
impl El for u8 {
    fn of(v: u64) -> Self {
        (v % 251) as u8
    }
    fn key(&self) -> u64 {
        *self as u64
    }
}

fn mix(a: u64, b: u64) -> u64 {
    let mut z = a.wrapping_mul(0x9E37_79B9_7F4A_7C15) ^ b.rotate_left(29) ^ 0xD6E8_FEB8_6659_FD93;
    z = (z ^ (z >> 32)).wrapping_mul(0xD6E8_FEB8_6659_FD93);
    z ^ (z >> 29)
}

type Log<S> = Arc<Mutex<Vec<(usize, Vec<S>, S)>>>;

/// Conditional whose answer is a (practically injective) function of (call number, index,
/// the state it was given); every call is logged. Each clone (= each chain) has its own log.
struct Recorder<S> {
    id: u64,
    calls: u64,
    log: Log<S>,
    registry: Arc<Mutex<Vec<(u64, Log<S>)>>>,
    /// Some(k): the k-th call from now panics instead of answering (a user's conditional may fail)
    panic_after: Option<usize>,
}
impl<S> Clone for Recorder<S> {
    fn clone(&self) -> Self {
        let log: Log<S> = Arc::new(Mutex::new(vec![]));
        let mut reg = self.registry.lock().unwrap();
        let id = reg.len() as u64 + 1;
        reg.push((id, log.clone()));
        Recorder {
            id,
            calls: 0,
            log,
            registry: self.registry.clone(),
            panic_after: None,
        }
    }
}
impl<S: El> Conditional<S> for Recorder<S> {
    fn sample(&mut self, index: usize, given: &[S]) -> S {
        if let Some(k) = self.panic_after {
            if k == 0 {
                self.panic_after = None;
                panic!("conditional failed on purpose");
            }
            self.panic_after = Some(k - 1);
        }
        self.calls += 1;
        let mut h = mix(self.calls, index as u64 ^ (self.id << 40));
        for g in given {
            h = mix(h, g.key());
        }
        let v = S::of(h);
        self.log.lock().unwrap().push((index, given.to_vec(), v));
        v
    }
}

#[derive(Debug, Clone, Serialize, Deserialize)]
pub struct Case {
    /// start points of different lengths per chain (chains are stepped individually)
    #[serde(default)]
    pub ragged: bool,
    /// some start coordinates are -0.0 (float state types)
    #[serde(default)]
    pub neg_zero: bool,
    /// position in the schedule after which the sampler is re-seeded (via_sampler only)
    #[serde(default)]
    pub reseed_at: Option<usize>,
    /// 0 f64, 1 f32, 2 i32, 3 u8
    pub st: u8,
    pub dim: usize,
    pub chains: usize,
    pub init_seed: u64,
    /// which chain to step at each point of the history
    pub schedule: Vec<u8>,
    pub via_sampler: bool,
    /// history points (bit 7 of the schedule byte) at which the public `current_state` field is
    /// overwritten first: 1 = same length, 2 = another length; the new vector has spare capacity
    #[serde(default)]
    pub reassign: u8,
    /// history points (bit 6 of the schedule byte) at which the conditional panics in mid-sweep
    #[serde(default)]
    pub failing_conditional: bool,
}

fn strategy() -> BoxedStrategy<Case> {
    let dim = prop_oneof![1 => Just(1usize), 5 => 2usize..6, 3 => 6usize..20, 1 => 20usize..=64];
    bx((0u8..4, dim, 1usize..=8, any::<u64>(), proptest::collection::vec(any::<u8>(), 1..10), any::<bool>(), proptest::bool::weighted(0.2), proptest::bool::weighted(0.3), (proptest::option::weighted(0.3, 0usize..9), prop_oneof![3 => Just(0u8), 1 => Just(1u8), 1 => Just(2u8)], proptest::bool::weighted(0.2))).prop_map(
        |(st, dim, chains, init_seed, schedule, via_sampler, ragged, neg_zero, (reseed_at, reassign, failing_conditional))| Case {
            reassign,
            failing_conditional,
            ragged,
            neg_zero,
            reseed_at,
            st,
            dim,
            chains,
            init_seed,
            schedule,
            via_sampler,
        },
    ))
}

fn same_keys<S: El>(a: &[S], b: &[S]) -> bool {
    a.len() == b.len() && a.iter().zip(b).all(|(x, y)| x.key() == y.key())
}

fn generic<S: El>(c: &Case, cov: &mut Cov) -> CheckResult {
    let registry: Arc<Mutex<Vec<(u64, Log<S>)>>> = Arc::new(Mutex::new(vec![]));
    let proto = Recorder::<S> {
        id: 0,
        calls: 0,
        log: Arc::new(Mutex::new(vec![])),
        registry: registry.clone(),
        panic_after: None,
    };
    let mut dims: Vec<usize> = (0..c.chains).map(|ch| if c.ragged { 1 + (c.dim + ch * 3) % 9 } else { c.dim }).collect();
    let inits: Vec<Vec<S>> = (0..c.chains)
        .map(|ch| {
            (0..dims[ch])
                .map(|i| {
                    let h = mix(c.init_seed ^ ch as u64, i as u64);
                    match (c.neg_zero && h % 3 == 0, S::neg_zero()) {
                        (true, Some(z)) => z,
                        _ => S::of(h),
                    }
                })
                .collect()
        })
        .collect();
    // build either through the sampler (public `chains` field) or as stand-alone chains
    let mut sampler: Option<GibbsSampler<S, Recorder<S>>> = None;
    let mut alone: Vec<GibbsMarkovChain<S, Recorder<S>>> = vec![];
    if c.via_sampler {
        sampler = Some(GibbsSampler::new(proto.clone(), inits.clone()).set_seed(c.init_seed % 1000));
    } else {
        alone = inits.iter().map(|s| GibbsMarkovChain::new(proto.clone(), s)).collect();
    }
    macro_rules! chains {
        () => {
            match sampler.as_mut() {
                Some(s) => &mut s.chains,
                None => &mut alone,
            }
        };
    }
    ensure!(chains!().len() == c.chains, "gibbs-chain-count", "{} chains built for {} initial states", chains!().len(), c.chains);
    let mut model: Vec<Vec<S>> = inits.clone();
    for (ch, m) in model.iter().enumerate() {
        ensure!(
            same_keys(&chains!()[ch].current_state, m),
            "gibbs-initial-state",
            "chain {ch} does not start at its initial state bit for bit: {:?} vs {:?}",
            chains!()[ch].current_state,
            m
        );
    }
    let mut seeds: Vec<u64> = chains!().iter().map(|ch| ch.seed).collect();
    for (t, pick) in c.schedule.iter().enumerate() {
        if c.reseed_at == Some(t) && sampler.is_some() {
            // re-seeding must not replace a chain's conditional (its state is the user's) nor its state
            let before: Vec<(u64, u64, Vec<S>)> = chains!().iter().map(|x| (x.target.id, x.target.calls, x.current_state.clone())).collect();
            let s = sampler.take().unwrap();
            sampler = Some(s.set_seed(c.init_seed % 77 + 5));
            for (i, x) in chains!().iter().enumerate() {
                ensure!(same_keys(&x.current_state, &before[i].2), "gibbs-reseed-changed-state", "set_seed changed the state of chain {i}");
                ensure!(
                    x.target.id == before[i].0 && x.target.calls == before[i].1,
                    "gibbs-reseed-replaced-conditional",
                    "after set_seed chain {i} no longer holds its own conditional (id {} with {} calls, now id {} with {} calls)",
                    before[i].0,
                    before[i].1,
                    x.target.id,
                    x.target.calls
                );
            }
            seeds = chains!().iter().map(|ch| ch.seed).collect();
            cov.class("re-seeded-mid-history");
        }
        let ch = (*pick & 0x3f) as usize % c.chains;
        if c.reassign > 0 && *pick & 0x80 != 0 {
            // `current_state` is a public field: the next sweep covers whatever vector is there
            let h0 = mix(c.init_seed ^ 0xA55, t as u64);
            let nd = if c.reassign == 2 { 1 + (h0 % 9) as usize } else { dims[ch] };
            let mut v: Vec<S> = Vec::with_capacity(nd + 1 + (h0 >> 8) as usize % 7);
            v.extend((0..nd).map(|i| S::of(mix(h0, i as u64))));
            // (the clone, which has no spare capacity, goes to the model; the vector with spare
            // capacity goes to the chain)
            model[ch] = v.clone();
            chains!()[ch].current_state = v;
            dims[ch] = nd;
            cov.class("current_state-reassigned(spare-capacity)");
        }
        let d = dims[ch];
        if c.failing_conditional && *pick & 0x40 != 0 {
            // the conditional fails at its k-th call of this sweep: the chain must keep a state of
            // the same length in which every coordinate holds either its old value or the answer
            // the conditional gave for it in this sweep
            let k = (mix(c.init_seed ^ 0xFA11, t as u64) % d as u64) as usize;
            chains!()[ch].target.panic_after = Some(k);
            let log_before = chains!()[ch].target.log.lock().unwrap().len();
            let r = no_panic(|| {
                chains!()[ch].step();
            });
            chains!()[ch].target.panic_after = None;
            ensure!(r.is_err(), "harness", "the failing conditional did not fail");
            let log = chains!()[ch].target.log.lock().unwrap().clone();
            let calls = &log[log_before..];
            let now = chains!()[ch].current_state.clone();
            ensure!(
                now.len() == d,
                "gibbs-state-lost-after-conditional-panic",
                "step {t}: after the conditional panicked at its call {k} of the sweep the chain's state has length {} instead of {d}",
                now.len()
            );
            for i in 0..d {
                let answered = calls.iter().find(|(idx, _, _)| *idx == i).map(|(_, _, v)| *v);
                let ok = now[i].key() == model[ch][i].key() || answered.map(|v| v.key() == now[i].key()).unwrap_or(false);
                ensure!(ok, "gibbs-state-lost-after-conditional-panic", "step {t}: after a failed sweep coordinate {i} is {:?}: neither its old value {:?} nor an answer of the conditional", now[i], model[ch][i]);
            }
            model[ch] = now;
            cov.class("conditional-panicked-mid-sweep");
            continue;
        }
        let before_all: Vec<Vec<S>> = chains!().iter().map(|x| x.current_state.clone()).collect();
        let log_before = chains!()[ch].target.log.lock().unwrap().len();
        let ret: Vec<S> = no_panic(|| chains!()[ch].step().clone()).map_err(|m| Fail::new("gibbs-panic", format!("step panicked: {m}")))?;
        let log = chains!()[ch].target.log.lock().unwrap().clone();
        let calls = &log[log_before..];
        ensure!(calls.len() == d, "gibbs-call-count", "step {t}: the conditional was asked {} times for a {d}-dimensional state", calls.len());
        let mut seen = vec![false; d];
        let mut cur = model[ch].clone();
        for (k, (idx, given, val)) in calls.iter().enumerate() {
            ensure!(*idx < d, "gibbs-index-range", "step {t} call {k}: index {idx} out of range for dimension {d}");
            ensure!(!seen[*idx], "gibbs-coordinate-twice", "step {t}: coordinate {idx} refreshed twice in one sweep (call {k})");
            seen[*idx] = true;
            if !same_keys(given, &cur) {
                let stale = same_keys(given, &model[ch]);
                return Err(Fail::new(
                    if stale && k > 0 { "gibbs-stale-given" } else { "gibbs-wrong-given" },
                    format!(
                        "step {t} call {k} (coordinate {idx}): conditional was given {:?} but the chain state with earlier refreshes applied is {:?}",
                        given, cur
                    ),
                ));
            }
            cur[*idx] = *val;
        }
        ensure!(seen.iter().all(|s| *s), "gibbs-coordinate-missed", "step {t}: not every coordinate was refreshed: {:?}", seen);
        ensure!(same_keys(&ret, &cur), "gibbs-final-state", "step {t}: returned state {:?} differs from the start state with every coordinate replaced {:?}", ret, cur);
        ensure!(same_keys(&chains!()[ch].current_state, &cur), "gibbs-final-state", "step {t}: current_state differs from the returned state");
        ensure!(same_keys(chains!()[ch].current_state(), &cur), "gibbs-final-state", "step {t}: current_state() differs");
        model[ch] = cur;
        for (o, st) in chains!().iter().enumerate() {
            if o != ch {
                ensure!(same_keys(&st.current_state, &before_all[o]), "gibbs-other-chain-changed", "step {t} of chain {ch} changed chain {o}");
            }
            ensure!(st.seed == seeds[o], "gibbs-seed-changed", "step {t}: seed field of chain {o} changed");
        }
        cov.evals(1);
    }
    cov.class(["f64", "f32", "i32", "u8"][c.st as usize % 4]);
    cov.class(if c.via_sampler { "via-sampler" } else { "stand-alone-chain" });
    if c.ragged {
        cov.class("ragged-start-points");
    }
    if dims.iter().any(|d| *d >= 2) {
        cov.nontrivial_u64(fingerprint(c));
    }
    Ok(())
}

fn check(c: &Case, cov: &mut Cov) -> CheckResult {
    match c.st % 4 {
        0 => generic::<f64>(c, cov),
        1 => generic::<f32>(c, cov),
        2 => generic::<i32>(c, cov),
        _ => generic::<u8>(c, cov),
    }
}

// ---------------------------------------------------------------------------------------------
// invariance of the joint distribution: exact kernel by enumerating scripted outcomes
// ---------------------------------------------------------------------------------------------

#[derive(Debug, Clone, Serialize, Deserialize)]
pub struct JointCase {
    pub dim: usize,
    pub levels: usize,
    pub weights: Vec<R>,
}

fn joint_strategy() -> BoxedStrategy<JointCase> {
    bx((1usize..=3, 2usize..=3)
        .prop_flat_map(|(dim, levels)| {
            let n = levels.pow(dim as u32);
            (Just(dim), Just(levels), proptest::collection::vec(prop_oneof![1 => Just(0.0f64), 5 => 0.05f64..1.0, 1 => 1.0f64..10.0], n))
        })
        .prop_map(|(dim, levels, mut weights)| {
            if weights.iter().all(|w| *w == 0.0) {
                weights[0] = 1.0;
            }
            JointCase {
                dim,
                levels,
                weights: weights.into_iter().map(R).collect(),
            }
        }))
}

#[derive(Clone)]
struct Scripted {
    script: Vec<usize>,
    pos: usize,
    log: Arc<Mutex<Vec<(usize, Vec<i32>)>>>,
}
impl Conditional<i32> for Scripted {
    fn sample(&mut self, index: usize, given: &[i32]) -> i32 {
        self.log.lock().unwrap().push((index, given.to_vec()));
        let v = self.script.get(self.pos).copied().unwrap_or(0);
        self.pos += 1;
        v as i32
    }
}

fn check_joint(c: &JointCase, cov: &mut Cov) -> CheckResult {
    let (d, l) = (c.dim, c.levels);
    let n = l.pow(d as u32);
    let total: f64 = c.weights.iter().map(|w| w.0).sum();
    let pi: Vec<f64> = c.weights.iter().map(|w| w.0 / total).collect();
    let decode = |s: usize| -> Vec<i32> { (0..d).map(|i| ((s / l.pow(i as u32)) % l) as i32).collect() };
    let encode = |v: &[i32]| -> usize { v.iter().enumerate().map(|(i, x)| *x as usize * l.pow(i as u32)).sum() };
    // full conditional p(x_i = v | others of `given`)
    let cond = |i: usize, given: &[i32], v: usize| -> f64 {
        let mut g = given.to_vec();
        let mut den = 0.0;
        for w in 0..l {
            g[i] = w as i32;
            den += pi[encode(&g)];
        }
        g[i] = v as i32;
        if den > 0.0 {
            pi[encode(&g)] / den
        } else {
            // conditioning event of probability zero: any proper distribution will do
            1.0 / l as f64
        }
    };
    let mut p = vec![vec![0.0f64; n]; n];
    let n_out = l.pow(d as u32);
    let mut steps = 0;
    for s in 0..n {
        if !(pi[s] > 0.0) {
            continue;
        }
        for o in 0..n_out {
            let script: Vec<usize> = (0..d).map(|k| (o / l.pow(k as u32)) % l).collect();
            let log = Arc::new(Mutex::new(vec![]));
            let mut chain = GibbsMarkovChain::new(
                Scripted {
                    script: script.clone(),
                    pos: 0,
                    log: log.clone(),
                },
                &decode(s),
            );
            let fin = chain.step().clone();
            steps += 1;
            let calls = log.lock().unwrap().clone();
            ensure!(calls.len() == d, "gibbs-call-count", "joint kernel: {} conditional calls for dimension {d}", calls.len());
            let mut prob = 1.0;
            for (k, (idx, given)) in calls.iter().enumerate() {
                ensure!(*idx < d && given.len() == d, "gibbs-index-range", "joint kernel: call {k} index {idx}");
                prob *= cond(*idx, given, script[k]);
            }
            ensure!(fin.iter().all(|x| *x >= 0 && (*x as usize) < l), "gibbs-final-state", "joint kernel: final state {:?} outside the table", fin);
            p[s][encode(&fin)] += prob;
        }
        let row: f64 = p[s].iter().sum();
        ensure!((row - 1.0).abs() < 1e-9, "gibbs-kernel-row", "joint kernel: transition probabilities from state {s} sum to {row}");
    }
    for y in 0..n {
        let inflow: f64 = (0..n).map(|x| pi[x] * p[x][y]).sum();
        ensure!(
            (inflow - pi[y]).abs() <= 1e-12,
            "gibbs-invariance",
            "joint {:?} (dim {d}, {l} levels): (pi P)({y}) = {inflow} but pi({y}) = {} — the sweep does not leave the joint invariant",
            pi,
            pi[y]
        );
    }
    cov.evals(steps);
    // non-trivial: some conditional really depends on another coordinate (joint not a product)
    let dependent = d >= 2 && {
        let mut dep = false;
        for s in 0..n {
            let v = decode(s);
            let mut prod = 1.0;
            for i in 0..d {
                let marg: f64 = (0..n).filter(|t| decode(*t)[i] == v[i]).map(|t| pi[t]).sum();
                prod *= marg;
            }
            if (prod - pi[s]).abs() > 1e-6 {
                dep = true;
            }
        }
        dep
    };
    if dependent {
        cov.nontrivial_u64(fingerprint(c));
        cov.class("dependent-joint");
    }
    if pi.iter().any(|x| *x == 0.0) {
        cov.class("joint-has-zero-cells");
    }
    Ok(())
}

pub fn run(ctx: &mut Ctx) {
    ctx.rule = "recording Conditional (answer = injective function of call number, index and the state it was given), state types f64/f32/i32/u8, dims 1..64, 1..8 chains stepped individually in a generated schedule, through GibbsSampler.chains and stand-alone chains; joint tables on {0..2}^d (d<=3, correlated, with zero cells) with all scripted outcome tuples enumerated; non-trivial = dim >= 2 (conditioning on another coordinate) / joint that is not a product; distinct by case fingerprint".into();
    ctx.assume("the scan order is not fixed by the statement: any permutation of the coordinates is accepted");
    let t = ctx.tier;
    ctx.section("sweep", "order-agnostic model of a sweep: d calls, indices a permutation, each `given` = start state with earlier refreshes applied, final state, nothing else changes", t.pick(400_000, 12_000_000), 16, strategy, check);
    ctx.section("joint-invariance", "exact one-step kernel from enumerated conditional outcomes (probabilities evaluated at the `given` the library passed): pi P = pi to 1e-12", t.pick(6_000, 200_000), 16, joint_strategy, check_joint);
}

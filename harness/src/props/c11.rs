//! C11 — split R-hat = sqrt(var+/W) of the half-chains; summary statistics; NaN robustness.

use super::statgen::{arr_case, gen_all, gen_param, to_array3, ArrCase};
use crate::engine::num::R;
use crate::engine::{bx, fingerprint, no_panic, CheckResult, Cov, Ctx, Fail, Tier};
use crate::ensure;
use crate::refs::stats as rs;
use mini_mcmc::stats::{basic_stats, split_rhat_mean_ess, RunStats};
use ndarray::{Array1, Array3};
use proptest::prelude::*;
use serde::{Deserialize, Serialize};

pub const RHAT_RTOL: f64 = 1e-4;

fn lib_rhat_ess(a: &Array3<f32>) -> Result<(Vec<f64>, Vec<f64>), Fail> {
    let r = no_panic(|| split_rhat_mean_ess(a.view()))
        .map_err(|m| Fail::new("rhat-panic", format!("split_rhat_mean_ess panicked: {m}")))?;
    Ok((
        r.0.iter().map(|x| *x as f64).collect(),
        r.1.iter().map(|x| *x as f64).collect(),
    ))
}

/// does `got` match the reference under either within-variance convention? returns which.
fn match_rhat(got: f64, chains: &rs::Chains, rtol: f64) -> (bool, &'static str, f64, f64) {
    let a = rs::split_rhat(chains, false);
    let b = rs::split_rhat(chains, true);
    let da = ((got - a) / a).abs();
    let db = ((got - b) / b).abs();
    if da <= rtol {
        (true, "divisor-n", a, da)
    } else if db <= rtol {
        (true, "divisor-n-1", b, db)
    } else {
        (false, "none", a, da.min(db))
    }
}

pub fn check_arr(case: &ArrCase, cov: &mut Cov) -> CheckResult {
    let per_param = gen_all(case);
    let arr = to_array3(&per_param);
    let (rhat, _ess) = lib_rhat_ess(&arr)?;
    ensure!(rhat.len() == case.params.len(), "rhat-shape", "{} R-hat values for {} parameters", rhat.len(), case.params.len());
    let h = case.draws / 2;
    let mut nontrivial = false;
    for (p, chains) in per_param.iter().enumerate() {
        let pm = &case.params[p];
        let halves = rs::split_halves(chains);
        let wv = rs::within_var(&halves, false);
        let got = rhat[p];
        // degenerate: (numerically) constant half-chains => the diagnostic is undefined
        let degenerate = !(wv.w > 1e-9 * (pm.scale.0 * pm.scale.0 + 1e-300)) || h < 2;
        if degenerate {
            cov.class("param-degenerate(constant or h<2)");
            continue;
        }
        let cond = 1.0 + (pm.loc.0 / pm.scale.0).abs() / 25.0;
        let (ok, conv, want, dev) = match_rhat(got, chains, RHAT_RTOL * cond);
        cov.track_max("rhat_rel_dev_over_cond", dev / cond);
        if !ok {
            let inv = 1.0 / want;
            let sig = if ((got - inv) / inv).abs() < 1e-2 && (want - 1.0).abs() > 0.02 {
                "rhat-inverted"
            } else {
                "rhat-value"
            };
            return Err(Fail::new(
                sig,
                format!(
                    "param {p} ({} chains x {} draws, kind {}): library split R-hat = {got}, reference sqrt(var+/W) = {want} (W={:e}, B={:e}, var+={:e})",
                    case.chains, case.draws, pm.kind, wv.w, wv.b, wv.var_plus
                ),
            ));
        }
        cov.class(conv);
        let floor = ((h as f64 - 1.0) / h as f64).sqrt();
        ensure!(
            got >= floor * (1.0 - RHAT_RTOL * cond),
            "rhat-floor",
            "param {p}: R-hat {got} is below sqrt((n-1)/n) = {floor}"
        );
        // non-trivial: >= 2 chains whose half-means differ by > 0.1 sigma
        let means: Vec<f64> = halves.iter().map(|c| rs::mean(c)).collect();
        let spread = means.iter().cloned().fold(f64::MIN, f64::max) - means.iter().cloned().fold(f64::MAX, f64::min);
        if case.chains >= 2 && spread > 0.1 * wv.w.sqrt() {
            nontrivial = true;
        }
        cov.class(match pm.kind {
            0 => "iid",
            1 => "ar1",
            2 => "trend",
            3 => "multimodal",
            4 => "hetero-scale",
            5 => "ties",
            _ => "constant",
        });
    }
    if case.draws % 2 == 1 {
        cov.class("odd-length");
    }
    if case.chains == 1 {
        cov.class("single-chain");
    }
    if h <= 100 {
        cov.class("half<=100");
    } else {
        cov.class("half>100");
    }
    if nontrivial {
        cov.nontrivial_u64(fingerprint(case));
    }
    Ok(())
}

// ------------------------------------------------------------------------------------------
// metamorphic relations
// ------------------------------------------------------------------------------------------

#[derive(Debug, Clone, Serialize, Deserialize)]
pub struct MetaCase {
    pub arr: ArrCase,
    pub a: R,
    pub b: R,
    pub perm_seed: u64,
    pub which: usize,
    pub other_seed: u64,
}

fn meta_strategy() -> BoxedStrategy<MetaCase> {
    bx((
        arr_case(8, 1200, false),
        prop_oneof![Just(-1.0f64), 0.25f64..4.0, Just(-2.5f64), Just(8.0f64)],
        prop_oneof![Just(0.0f64), -3.0f64..3.0],
        any::<u64>(),
        any::<usize>(),
        any::<u64>(),
    )
        .prop_map(|(arr, a, b, perm_seed, which, other_seed)| MetaCase {
            arr,
            a: R(a),
            b: R(b),
            perm_seed,
            which,
            other_seed,
        }))
}

fn check_meta(case: &MetaCase, cov: &mut Cov) -> CheckResult {
    let c = &case.arr;
    let per_param = gen_all(c);
    let np = per_param.len();
    let p = case.which % np;
    let pm = &c.params[p];
    let base_arr = to_array3(&per_param);
    let (rhat0, _) = lib_rhat_ess(&base_arr)?;
    let r0 = rhat0[p];
    let h = c.draws / 2;
    let wv = rs::within_var(&rs::split_halves(&per_param[p]), false);
    if !(wv.w > 1e-9 * pm.scale.0 * pm.scale.0) || h < 2 || !r0.is_finite() {
        cov.class("degenerate-skip");
        return Ok(());
    }
    let cond = 1.0 + (pm.loc.0 / pm.scale.0).abs() / 25.0 + (case.b.0 / case.a.0).abs() / 25.0;
    let tol = 2.0 * RHAT_RTOL * cond;

    // (1) affine map of parameter p (values rounded to f32 again: that is the map a user applies)
    let mut pp = per_param.clone();
    for ch in pp[p].iter_mut() {
        for x in ch.iter_mut() {
            *x = ((case.a.0 * *x + case.b.0 * pm.scale.0) as f32) as f64;
        }
    }
    let (r1, _) = lib_rhat_ess(&to_array3(&pp))?;
    cov.track_max("affine_rel_dev_over_cond", ((r1[p] - r0) / r0).abs() / cond);
    ensure!(
        ((r1[p] - r0) / r0).abs() <= tol,
        "rhat-affine",
        "R-hat changed from {r0} to {} under x -> {}*x + {}",
        r1[p],
        case.a.0,
        case.b.0 * pm.scale.0
    );

    // (2) chain permutation
    let mut order: Vec<usize> = (0..c.chains).collect();
    let mut rng = crate::engine::num::Prng::new(case.perm_seed);
    for i in (1..order.len()).rev() {
        let j = rng.below(i as u64 + 1) as usize;
        order.swap(i, j);
    }
    let permuted: Vec<rs::Chains> = per_param
        .iter()
        .map(|chs| order.iter().map(|&i| chs[i].clone()).collect())
        .collect();
    let (r2, _) = lib_rhat_ess(&to_array3(&permuted))?;
    for q in 0..np {
        if rhat0[q].is_finite() {
            ensure!(
                ((r2[q] - rhat0[q]) / rhat0[q]).abs() <= tol,
                "rhat-permutation",
                "R-hat of param {q} changed from {} to {} under chain permutation {:?}",
                rhat0[q],
                r2[q],
                order
            );
        }
    }

    // (3) other parameters replaced: R-hat of p must be bitwise unchanged
    if np >= 2 {
        let mut other = per_param.clone();
        for (q, chs) in other.iter_mut().enumerate() {
            if q != p {
                let mut pm2 = c.params[q].clone();
                pm2.loc = R(pm2.loc.0 + 5.0 * pm2.scale.0);
                pm2.kind = (pm2.kind + 1) % 6;
                *chs = gen_param(&pm2, c.chains, c.draws, case.other_seed ^ q as u64);
            }
        }
        let (r3, _) = lib_rhat_ess(&to_array3(&other))?;
        ensure!(
            (r3[p] as f32).to_bits() == (r0 as f32).to_bits(),
            "rhat-cross-param",
            "R-hat of param {p} changed from {r0} to {} when only other parameters changed",
            r3[p]
        );
        cov.class("cross-param-checked");
    }

    // (4) moving one chain away: monotone growth without bound
    if c.chains >= 2 {
        let sd = wv.w.sqrt();
        // move the chain whose mean is largest further up: then every step moves it away from
        // all the others and the between-half variance can only grow
        let cm: Vec<f64> = per_param[p].iter().map(|ch| rs::mean(ch)).collect();
        let mover = (0..c.chains).max_by(|&i, &j| cm[i].partial_cmp(&cm[j]).unwrap()).unwrap();
        let mut prev = r0;
        let mut last = r0;
        for (k, delta) in [1.0f64, 10.0, 1000.0].iter().enumerate() {
            let mut moved = per_param.clone();
            for x in moved[p][mover].iter_mut() {
                *x = ((*x + delta * sd.max(pm.scale.0)) as f32) as f64;
            }
            let (r, _) = lib_rhat_ess(&to_array3(&moved))?;
            // allow for the chain having been off-centre in the other direction at first
            if k >= 1 {
                ensure!(
                    r[p] >= prev * (1.0 - tol),
                    "rhat-monotone",
                    "R-hat fell from {prev} to {} when chain {mover} moved further away (delta = {delta} sd)",
                    r[p]
                );
            }
            prev = r[p];
            last = r[p];
        }
        ensure!(
            last > 10.0,
            "rhat-unbounded",
            "R-hat is only {last} with one of {} chains 1000 sd away from the others (base {r0})",
            c.chains
        );
        cov.class("separation-checked");
        cov.nontrivial_u64(fingerprint(case));
    }
    Ok(())
}

// ------------------------------------------------------------------------------------------
// summary statistics (basic_stats / RunStats)
// ------------------------------------------------------------------------------------------

#[derive(Debug, Clone, Serialize, Deserialize)]
pub struct SummaryCase {
    pub values: Vec<R>,
}

fn summary_strategy() -> BoxedStrategy<SummaryCase> {
    let v = prop_oneof![
        8 => (-100.0f64..100.0).prop_map(|x| (x as f32) as f64),
        3 => Just(f64::NAN),
        1 => Just(f64::INFINITY),
        1 => Just(f64::NEG_INFINITY),
        2 => Just(1.0f64),
        1 => Just(0.0f64),
        1 => Just(-0.0f64),
    ];
    let finite = (-1000.0f64..1000.0).prop_map(|x| (x as f32) as f64);
    let len = prop_oneof![3 => 1usize..9, 4 => 9usize..21, 6 => 21usize..65, 2 => 65usize..257];
    bx(prop_oneof![
        3 => len.clone().prop_flat_map(move |n| proptest::collection::vec(v.clone(), n)),
        2 => len.prop_flat_map(move |n| proptest::collection::vec(finite.clone(), n)),
    ]
    .prop_map(|values| SummaryCase {
        values: values.into_iter().map(R).collect(),
    }))
}

pub fn check_summary(case: &SummaryCase, cov: &mut Cov) -> CheckResult {
    let v32: Vec<f32> = case.values.iter().map(|r| r.0 as f32).collect();
    let n = v32.len();
    let has_nan = v32.iter().any(|x| x.is_nan());
    let all_finite = v32.iter().all(|x| x.is_finite());
    let bs = no_panic(|| basic_stats("x", Array1::from(v32.clone()))).map_err(|m| {
        Fail::new(
            if has_nan { "basic-stats-panic nan" } else { "basic-stats-panic" },
            format!("basic_stats panicked on {n} values ({} NaN): {m}", v32.iter().filter(|x| x.is_nan()).count()),
        )
    })?;
    if has_nan {
        cov.class("with-nan");
        if n > 20 {
            cov.nontrivial_u64(fingerprint(case));
        }
    }
    if all_finite {
        cov.class("all-finite");
        let mut s: Vec<f64> = v32.iter().map(|x| *x as f64).collect();
        s.sort_by(|a, b| a.partial_cmp(b).unwrap());
        ensure!(bs.min as f64 == s[0], "summary-min", "min {} vs true {}", bs.min, s[0]);
        ensure!(bs.max as f64 == s[n - 1], "summary-max", "max {} vs true {}", bs.max, s[n - 1]);
        let mean = rs::mean(&s);
        let scale = s.iter().map(|x| x.abs()).fold(0.0, f64::max).max(1e-30);
        ensure!(
            (bs.mean as f64 - mean).abs() <= 1e-5 * scale,
            "summary-mean",
            "mean {} vs true {mean}",
            bs.mean
        );
        if n >= 2 {
            let sd = rs::var_unbiased(&s).sqrt();
            ensure!(
                (bs.std as f64 - sd).abs() <= 1e-4 * scale + 1e-3 * sd,
                "summary-std",
                "std {} vs sample standard deviation {sd}",
                bs.std
            );
        }
        let lo = s[(n - 1) / 2];
        let hi = s[n / 2];
        ensure!(
            bs.median as f64 == lo || bs.median as f64 == hi,
            "summary-median",
            "median {} is not a middle order statistic ({lo} / {hi}) of {n} values",
            bs.median
        );
        if n >= 3 {
            cov.nontrivial_u64(fingerprint(case));
        }
    }
    Ok(())
}

fn stats_same(a: &RunStats, b: &RunStats) -> bool {
    let f = |x: f32, y: f32| x.to_bits() == y.to_bits() || (x.is_nan() && y.is_nan()) || ((x - y).abs() <= 1e-5 * x.abs().max(y.abs()));
    let g = |p: &mini_mcmc::stats::BasicStats, q: &mini_mcmc::stats::BasicStats| f(p.min, q.min) && f(p.max, q.max) && f(p.mean, q.mean) && f(p.median, q.median) && (f(p.std, q.std) || (p.std - q.std).abs() <= 1e-4 * p.mean.abs());
    g(&a.ess, &b.ess) && g(&a.rhat, &b.rhat)
}

/// RunStats::from on generated arrays incl. constant parameters: never panics; when all
/// per-parameter diagnostics are finite the summary equals the statistics of those values.
pub fn check_runstats(case: &ArrCase, cov: &mut Cov) -> CheckResult {
    let per_param = gen_all(case);
    let arr = to_array3(&per_param);
    let rs_ = no_panic(|| RunStats::from(arr.view()))
        .map_err(|m| Fail::new("runstats-panic", format!("RunStats::from panicked: {m}")))?;
    let (rhat, ess) = lib_rhat_ess(&arr)?;
    // the same logical array in other memory layouts (views of permuted / Fortran-ordered /
    // strided storage are ordinary ArrayView3 values): diagnostics must not depend on layout
    {
        use ndarray::ShapeBuilder;
        let (c, n, p) = arr.dim();
        let f_order: Array3<f32> = Array3::from_shape_fn((c, n, p).f(), |i| arr[i]);
        let draws_major: Array3<f32> = Array3::from_shape_fn((n, c, p), |(k, ch, q)| arr[[ch, k, q]]);
        let permuted = draws_major.view().permuted_axes([1, 0, 2]);
        let wide: Array3<f32> = Array3::from_shape_fn((c, n, 2 * p), |(ch, k, q)| if q % 2 == 0 { arr[[ch, k, q / 2]] } else { -7.5 });
        let strided = wide.slice(ndarray::s![.., .., ..;2]);
        let f64_view = arr.mapv(|v| v as f64);
        for (name, v) in [("fortran-order", f_order.view()), ("permuted-axes", permuted), ("strided", strided)] {
            let alt = no_panic(|| RunStats::from(v)).map_err(|m| Fail::new("runstats-panic", format!("RunStats::from panicked on a {name} view: {m}")))?;
            ensure!(
                stats_same(&alt, &rs_),
                "runstats-layout-dependent",
                "RunStats::from gives {:?} for a {name} view but {:?} for the same array in standard layout",
                alt,
                rs_
            );
            let (r2, e2) = {
                let r = no_panic(|| split_rhat_mean_ess(v)).map_err(|m| Fail::new("rhat-panic", format!("split_rhat_mean_ess panicked on a {name} view: {m}")))?;
                (r.0.to_vec(), r.1.to_vec())
            };
            for q in 0..p {
                let same = |a: f64, b: f32| (a as f32).to_bits() == b.to_bits() || (a.is_nan() && b.is_nan()) || (a - b as f64).abs() <= 1e-5 * a.abs();
                ensure!(same(rhat[q], r2[q]) && same(ess[q], e2[q]), "rhat-layout-dependent", "param {q}: ({}, {}) for a {name} view vs ({}, {}) in standard layout", r2[q], e2[q], rhat[q], ess[q]);
            }
        }
        let alt = RunStats::from(f64_view.view());
        ensure!(stats_same(&alt, &rs_), "runstats-layout-dependent", "RunStats::from of the f64 copy differs from that of the f32 array");
        cov.class("layouts-compared");
    }
    for (name, vals, bs) in [("rhat", &rhat, &rs_.rhat), ("ess", &ess, &rs_.ess)] {
        if vals.iter().all(|x| x.is_finite()) {
            let mut s = vals.clone();
            s.sort_by(|a, b| a.partial_cmp(b).unwrap());
            let n = s.len();
            let sc = s.iter().map(|x| x.abs()).fold(0.0, f64::max).max(1e-30);
            ensure!(bs.min as f64 == s[0] && bs.max as f64 == s[n - 1], "summary-minmax", "{name}: summary [{}, {}] vs true [{}, {}]", bs.min, bs.max, s[0], s[n - 1]);
            ensure!((bs.mean as f64 - rs::mean(&s)).abs() <= 1e-5 * sc, "summary-mean", "{name}: mean {} vs {}", bs.mean, rs::mean(&s));
            if n >= 2 {
                let sd = rs::var_unbiased(&s).sqrt();
                ensure!((bs.std as f64 - sd).abs() <= 1e-4 * sc + 1e-3 * sd, "summary-std", "{name}: std {} vs {}", bs.std, sd);
            }
            ensure!(
                bs.median as f64 == s[(n - 1) / 2] || bs.median as f64 == s[n / 2],
                "summary-median",
                "{name}: median {} not a middle order statistic of {:?}",
                bs.median,
                s
            );
            cov.class("all-finite-summary");
        } else {
            cov.class("nan-diagnostics-summary");
        }
    }
    if case.params.iter().any(|p| p.kind == 6) {
        cov.class("has-constant-param");
    }
    if case.params.len() >= 2 {
        cov.nontrivial_u64(fingerprint(case));
    }
    Ok(())
}

pub fn run(ctx: &mut Ctx) {
    ctx.rule = "sample arrays 1..16 chains x 4..5000 draws x 1..8 params (iid / AR(1) / trend / multimodal / hetero-scale / ties / constant; sizes biased to 4..9, odd, 190..212 and long), structure from proptest, bulk values from the case's data_seed; non-trivial = >=2 chains whose half-means differ by > 0.1 sigma, a separation/metamorphic case, or a NaN summary of length > 20; distinct by case fingerprint".into();
    ctx.assume("within-half variance divisor is not fixed by the statement: divisor n and n-1 are both accepted");
    ctx.assume("|loc|/scale <= 5000; comparison tolerance 1e-4*(1+|loc|/scale/25) relative (f32 rounding of the data alone is eps32*|loc|/scale), calibrated on the pinned tree (observed maxima are in the evidence)");
    let t = ctx.tier;
    let long = if t == Tier::Quick { 2000 } else { 5000 };
    ctx.section(
        "rhat-reference",
        "library split R-hat vs f64 reference of the stated formula, floor sqrt((n-1)/n)",
        t.pick(30_000, 1_000_000),
        16,
        move || bx(arr_case(16, long, true)),
        check_arr,
    );
    ctx.section(
        "rhat-metamorphic",
        "affine map, chain permutation, other parameters replaced (bitwise), one chain moved 1/10/1000 sd away (monotone, unbounded)",
        t.pick(6_000, 200_000),
        16,
        meta_strategy,
        check_meta,
    );
    ctx.section(
        "summary",
        "basic_stats on arrays of length 1..256 with NaN/inf of any density: never panics; finite inputs: exact min/max, mean, std(ddof 1), median in {lower, upper middle}",
        t.pick(200_000, 6_000_000),
        16,
        summary_strategy,
        check_summary,
    );
    ctx.section(
        "runstats",
        "RunStats::from on arrays incl. constant parameters: no panic; finite diagnostics => summary equals their statistics",
        t.pick(8_000, 250_000),
        16,
        move || bx(arr_case(8, 800, true)),
        check_runstats,
    );
}

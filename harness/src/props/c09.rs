//! C09 — run(): shape, chain order, burn-in discard and continuation are exact.

use super::common::*;
use super::targets::{gauss_spec, HTarget, Spec};
use crate::engine::num::{Prng, R};
use crate::engine::{bx, fingerprint, no_panic, CheckResult, Cov, Ctx, Fail};
use crate::ensure;
use burn::prelude::*;
use mini_mcmc::core::{ChainRunner, HasChains, MarkovChain};
use mini_mcmc::distributions::{Conditional, Gaussian2D, IsotropicGaussian, Proposal};
use mini_mcmc::gibbs::GibbsSampler;
use mini_mcmc::hmc::HMC;
use mini_mcmc::metropolis_hastings::MetropolisHastings;
use mini_mcmc::nuts::{NUTSChain, NUTS};
use mini_mcmc::verif;
use ndarray::{arr1, arr2, Array3};
use proptest::prelude::*;
use rand::rngs::SmallRng;
use rand::{Rng, SeedableRng};
use serde::{Deserialize, Serialize};

// ---------------------------------------------------------------------------------------------
// (a) user-defined counting chains behind a user-defined HasChains
// ---------------------------------------------------------------------------------------------

struct CountChain {
    id: usize,
    count: u64,
    dim: usize,
    spin: u32,
    state: Vec<f64>,
}
impl CountChain {
    fn fill(&mut self) {
        self.state = (0..self.dim)
            .map(|j| match j {
                0 => self.id as f64,
                1 => self.count as f64,
                _ => (self.id * 1000 + j) as f64 + self.count as f64 * 0.5,
            })
            .collect();
        if self.dim == 1 {
            self.state[0] = self.id as f64 * 1e6 + self.count as f64;
        }
    }
}
impl MarkovChain<f64> for CountChain {
    fn step(&mut self) -> &Vec<f64> {
        self.count += 1;
        // chain-specific delay so that completion order varies
        let mut x = 0u64;
        for i in 0..(self.spin as u64 * ((self.id as u64 * 7 + self.count) % 5)) {
            x = x.wrapping_mul(6364136223846793005).wrapping_add(i);
        }
        std::hint::black_box(x);
        if self.spin > 0 && (self.count + self.id as u64) % 3 == 0 {
            std::thread::yield_now();
        }
        self.fill();
        &self.state
    }
    fn current_state(&self) -> &Vec<f64> {
        &self.state
    }
}
struct Counter {
    chains: Vec<CountChain>,
}
impl HasChains<f64> for Counter {
    type Chain = CountChain;
    fn chains_mut(&mut self) -> &mut Vec<CountChain> {
        &mut self.chains
    }
}

#[derive(Debug, Clone, Serialize, Deserialize)]
pub struct CounterCase {
    pub chains: usize,
    pub dim: usize,
    pub spin: u32,
    pub threads: usize,
    /// (n_collect, n_discard) per run call
    pub runs: Vec<(usize, usize)>,
}

fn counts() -> impl Strategy<Value = (usize, usize)> {
    let c = prop_oneof![1 => Just(0usize), 2 => Just(1usize), 6 => 2usize..20, 1 => 20usize..=60];
    let d = prop_oneof![2 => Just(0usize), 2 => Just(1usize), 5 => 2usize..20, 1 => 20usize..=60];
    (c, d)
}

fn counter_strategy() -> BoxedStrategy<CounterCase> {
    bx((
        prop_oneof![1 => Just(1usize), 5 => 2usize..8, 2 => 8usize..=32],
        1usize..=16,
        prop_oneof![Just(0u32), 1u32..200],
        1usize..=16,
        proptest::collection::vec(counts(), 1..=5),
    )
        .prop_map(|(chains, dim, spin, threads, runs)| CounterCase {
            chains,
            dim,
            spin,
            threads,
            runs,
        }))
}

fn check_counter(c: &CounterCase, cov: &mut Cov) -> CheckResult {
    let mut s = Counter {
        chains: (0..c.chains)
            .map(|id| {
                let mut ch = CountChain {
                    id,
                    count: 0,
                    dim: c.dim,
                    spin: c.spin,
                    state: vec![],
                };
                ch.fill();
                ch
            })
            .collect(),
    };
    let pool = rayon::ThreadPoolBuilder::new().num_threads(c.threads).build().map_err(|e| Fail::new("harness", format!("pool: {e}")))?;
    let mut prior = 0u64;
    let mut nontrivial = false;
    for (r, (n_collect, n_discard)) in c.runs.iter().enumerate() {
        let out: Array3<f64> = no_panic(|| pool.install(|| s.run(*n_collect, *n_discard)))
            .map_err(|m| Fail::new("run-panic", format!("run({n_collect},{n_discard}) panicked: {m}")))?
            .map_err(|e| Fail::new("run-error", format!("run({n_collect},{n_discard}) returned an error: {e}")))?;
        ensure!(
            out.shape() == [c.chains, *n_collect, c.dim],
            "run-shape",
            "run({n_collect},{n_discard}) call {r}: shape {:?}, expected [{}, {n_collect}, {}]",
            out.shape(),
            c.chains,
            c.dim
        );
        for ch in 0..c.chains {
            for k in 0..*n_collect {
                let want_count = prior + *n_discard as u64 + k as u64 + 1;
                let mut model = CountChain {
                    id: ch,
                    count: want_count,
                    dim: c.dim,
                    spin: 0,
                    state: vec![],
                };
                model.fill();
                for j in 0..c.dim {
                    if out[[ch, k, j]] != model.state[j] {
                        let got = out[[ch, k, j]];
                        return Err(Fail::new(
                            "run-entry",
                            format!(
                                "call {r} run({n_collect},{n_discard}) [{} chains, dim {}]: entry [chain {ch}, draw {k}, coord {j}] = {got}, expected {} (chain {ch} after {want_count} transitions)",
                                c.chains, c.dim, model.state[j]
                            ),
                        ));
                    }
                }
            }
            let after = prior + (*n_collect + *n_discard) as u64;
            ensure!(
                s.chains[ch].count == after,
                "run-transition-count",
                "call {r} run({n_collect},{n_discard}): chain {ch} performed {} transitions in total, expected {after}",
                s.chains[ch].count
            );
        }
        prior += (*n_collect + *n_discard) as u64;
        if *n_discard >= 1 && *n_collect >= 2 && c.chains >= 2 {
            nontrivial = true;
        }
        cov.evals(1);
    }
    if c.runs.len() >= 2 {
        cov.class("multi-call-history");
    }
    if c.runs.iter().any(|r| r.0 == 0) {
        cov.class("n_collect=0");
    }
    if c.chains == c.runs[0].0 {
        cov.class("n_chains==n_collect");
    }
    if nontrivial {
        cov.nontrivial_u64(fingerprint(c));
    }
    Ok(())
}

// ---------------------------------------------------------------------------------------------
// (b) MH and Gibbs: continuation, burn-in as a suffix, manual stepping
// ---------------------------------------------------------------------------------------------

#[derive(Clone)]
struct NoisyConditional {
    rng: SmallRng,
}
impl Conditional<f64> for NoisyConditional {
    fn sample(&mut self, index: usize, given: &[f64]) -> f64 {
        let others: f64 = given.iter().enumerate().filter(|(i, _)| *i != index).map(|(_, v)| *v).sum();
        0.3 * others + self.rng.random::<f64>() - 0.5
    }
}

#[derive(Debug, Clone, Serialize, Deserialize)]
pub struct SamplerCase {
    /// 0 MH, 1 Gibbs
    pub kind: u8,
    pub chains: usize,
    pub seed: u64,
    pub a: usize,
    pub b: usize,
    pub d: usize,
    pub threads: usize,
}

fn sampler_strategy() -> BoxedStrategy<SamplerCase> {
    bx((0u8..2, 1usize..=6, any::<u64>(), 1usize..30, 0usize..30, 0usize..30, 1usize..=8).prop_map(|(kind, chains, seed, a, b, d, threads)| SamplerCase {
        kind,
        chains,
        seed,
        a,
        b,
        d,
        threads,
    }))
}

fn rows_eq(a: &Array3<f64>, b: &Array3<f64>) -> bool {
    a.shape() == b.shape() && a.iter().zip(b.iter()).all(|(x, y)| x.to_bits() == y.to_bits())
}

fn check_sampler(c: &SamplerCase, cov: &mut Cov) -> CheckResult {
    let pool = rayon::ThreadPoolBuilder::new().num_threads(c.threads).build().map_err(|e| Fail::new("harness", format!("pool: {e}")))?;
    let inits: Vec<Vec<f64>> = (0..c.chains).map(|i| vec![i as f64 * 0.5 - 1.0, 1.0 + i as f64 * 0.25]).collect();
    let (a, b, d) = (c.a, c.b, c.d);
    // closures building identical twins
    let run3 = |f: &mut dyn FnMut(usize, usize) -> Result<Array3<f64>, Fail>, calls: &[(usize, usize)]| -> Result<Vec<Array3<f64>>, Fail> {
        calls.iter().map(|(x, y)| f(*x, *y)).collect()
    };
    let (first, second, long, suffix_src, manual, last_state): (Array3<f64>, Array3<f64>, Array3<f64>, Array3<f64>, Array3<f64>, Vec<Vec<f64>>);
    if c.kind == 0 {
        let build = || {
            let target = Gaussian2D {
                mean: arr1(&[0.0, 1.0]),
                cov: arr2(&[[4.0, 2.0], [2.0, 3.0]]),
            };
            MetropolisHastings::new(target, IsotropicGaussian::new(1.0).set_seed(c.seed ^ 5), inits.clone()).seed(c.seed)
        };
        let mut s1 = build();
        let mut f1 = |x: usize, y: usize| pool.install(|| s1.run(x, y)).map_err(|e| Fail::new("run-error", e.to_string()));
        let r = run3(&mut f1, &[(a, d), (b, 0)])?;
        first = r[0].clone();
        second = r[1].clone();
        last_state = s1.chains.iter().map(|ch| ch.current_state.clone()).collect();
        let mut s2 = build();
        long = pool.install(|| s2.run(a + b, d)).map_err(|e| Fail::new("run-error", e.to_string()))?;
        let mut s3 = build();
        suffix_src = pool.install(|| s3.run(a + d, 0)).map_err(|e| Fail::new("run-error", e.to_string()))?;
        // manual stepping of the chains of a twin
        let mut s4 = build();
        let mut m = Array3::<f64>::zeros((c.chains, a + d, 2));
        for (ci, ch) in s4.chains.iter_mut().enumerate() {
            for k in 0..a + d {
                let st = ch.step().clone();
                m[[ci, k, 0]] = st[0];
                m[[ci, k, 1]] = st[1];
            }
        }
        manual = m;
    } else {
        let build = || GibbsSampler::new(NoisyConditional { rng: SmallRng::seed_from_u64(c.seed) }, inits.clone()).set_seed(c.seed);
        let mut s1 = build();
        first = pool.install(|| s1.run(a, d)).map_err(|e| Fail::new("run-error", e.to_string()))?;
        second = pool.install(|| s1.run(b, 0)).map_err(|e| Fail::new("run-error", e.to_string()))?;
        last_state = s1.chains.iter().map(|ch| ch.current_state.clone()).collect();
        let mut s2 = build();
        long = pool.install(|| s2.run(a + b, d)).map_err(|e| Fail::new("run-error", e.to_string()))?;
        let mut s3 = build();
        suffix_src = pool.install(|| s3.run(a + d, 0)).map_err(|e| Fail::new("run-error", e.to_string()))?;
        let mut s4 = build();
        let mut m = Array3::<f64>::zeros((c.chains, a + d, 2));
        for (ci, ch) in s4.chains.iter_mut().enumerate() {
            for k in 0..a + d {
                let st = ch.step().clone();
                m[[ci, k, 0]] = st[0];
                m[[ci, k, 1]] = st[1];
            }
        }
        manual = m;
    }
    let name = if c.kind == 0 { "MH" } else { "Gibbs" };
    ensure!(first.shape() == [c.chains, a, 2] && second.shape() == [c.chains, b, 2], "run-shape", "{name}: shapes {:?} / {:?}", first.shape(), second.shape());
    // continuation: run(a,d) ++ run(b,0) == run(a+b,d)
    let mut joined = Array3::<f64>::zeros((c.chains, a + b, 2));
    for ci in 0..c.chains {
        for k in 0..a + b {
            for j in 0..2 {
                joined[[ci, k, j]] = if k < a { first[[ci, k, j]] } else { second[[ci, k - a, j]] };
            }
        }
    }
    ensure!(rows_eq(&joined, &long), "run-continuation", "{name} ({} chains): run({a},{d}) then run({b},0) differs from run({},{d}) of an identical twin", c.chains, a + b);
    // burn-in: run(a,d) == rows d.. of run(a+d,0)
    for ci in 0..c.chains {
        for k in 0..a {
            for j in 0..2 {
                ensure!(
                    first[[ci, k, j]].to_bits() == suffix_src[[ci, k + d, j]].to_bits(),
                    "run-burn-in",
                    "{name}: run({a},{d}) entry [chain {ci}, {k}] = {} but row {} of run({},0) is {}",
                    first[[ci, k, j]],
                    k + d,
                    a + d,
                    suffix_src[[ci, k + d, j]]
                );
            }
        }
    }
    ensure!(rows_eq(&manual, &suffix_src), "run-vs-manual-steps", "{name}: run({},0) differs from stepping the chains of a twin by hand", a + d);
    // the sampler is left at the last returned state
    let last_rows = if b > 0 { &second } else { &first };
    let n_last = last_rows.shape()[1];
    if n_last > 0 {
        for ci in 0..c.chains {
            for j in 0..2 {
                ensure!(
                    last_state[ci][j].to_bits() == last_rows[[ci, n_last - 1, j]].to_bits(),
                    "run-final-state",
                    "{name}: chain {ci} is left at {:?}, last returned draw is {:?}",
                    last_state[ci],
                    (last_rows[[ci, n_last - 1, 0]], last_rows[[ci, n_last - 1, 1]])
                );
            }
        }
    }
    cov.class(name);
    if d >= 1 && a >= 2 && c.chains >= 2 {
        cov.nontrivial_u64(fingerprint(c));
    }
    Ok(())
}

// ---------------------------------------------------------------------------------------------
// (c) HMC: rows are the positions after exactly n_discard+k+1 steps (trace hook), continuation
//     with injected momenta/uniforms (independent of any generator)
// ---------------------------------------------------------------------------------------------

#[derive(Debug, Clone, Serialize, Deserialize)]
pub struct HmcCase {
    pub spec: Spec,
    pub chains: usize,
    pub f64_backend: bool,
    pub a: usize,
    pub b: usize,
    pub d: usize,
    pub n_leapfrog: usize,
    pub eps_frac: R,
    pub data_seed: u64,
}

fn hmc_strategy() -> BoxedStrategy<HmcCase> {
    bx((gauss_spec(4, 20.0), 1usize..=5, any::<bool>(), prop_oneof![30 => 1usize..8, 1 => 1020usize..1100, 1 => 2040usize..2100], 0usize..6, 0usize..6, 0usize..4, 0.1f64..1.2, any::<u64>()).prop_map(
        |(spec, chains, f64_backend, a, b, d, n_leapfrog, eps_frac, data_seed)| HmcCase {
            spec,
            chains: if a > 100 { chains.min(2) } else { chains },
            f64_backend,
            a,
            b,
            d,
            n_leapfrog: if a > 100 { n_leapfrog.min(1) } else { n_leapfrog },
            eps_frac: R(eps_frac),
            data_seed,
        },
    ))
}

fn hmc_generic<T, B>(c: &HmcCase, cov: &mut Cov) -> CheckResult
where
    T: num_traits::Float + burn::tensor::ElementConversion + burn::tensor::Element + rand_distr::uniform::SampleUniform + num_traits::FromPrimitive,
    B: burn::tensor::backend::AutodiffBackend,
    rand_distr::StandardNormal: rand::distr::Distribution<T>,
    rand_distr::StandardUniform: rand_distr::Distribution<T>,
{
    let dim = c.spec.dim();
    let eps = T::from_f64(c.eps_frac.0 * c.spec.min_scale()).unwrap();
    let narrow = std::mem::size_of::<T>() == 4;
    let total = c.a + c.b + c.d;
    let mut rng = Prng::new(c.data_seed);
    let inits: Vec<Vec<f64>> = (0..c.chains).map(|_| c.spec.interior_point(&mut rng)).collect();
    let inits_t: Vec<Vec<T>> = inits.iter().map(|r| r.iter().map(|v| T::from_f64(*v).unwrap()).collect()).collect();
    let momenta: Vec<Vec<f64>> = (0..total).map(|_| (0..c.chains * dim).map(|_| rng.normal()).collect()).collect();
    let uniforms: Vec<Vec<f64>> = (0..total).map(|_| (0..c.chains).map(|_| rng.unif()).collect()).collect();
    let build = || HMC::<T, B, HTarget>::new(HTarget::new(c.spec.clone()), inits_t.clone(), eps, c.n_leapfrog).set_seed(c.data_seed);
    let arm = |from: usize, to: usize| {
        verif::hmc_clear_overrides();
        for t in from..to {
            verif::hmc_push_momenta(momenta[t].clone());
            verif::hmc_push_uniforms(uniforms[t].clone());
        }
    };
    let t3 = |t: Tensor<B, 3>| -> (Vec<usize>, Vec<f64>) { (t.dims().to_vec(), to_vec(&t)) };

    // twin 1: run(a,d) then run(b,0), with a trace
    let mut s1 = build();
    arm(0, total);
    verif::hmc_trace_start();
    let r1 = no_panic(|| s1.run(c.a, c.d));
    let trace1 = verif::hmc_trace_take();
    let (sh1, v1) = t3(r1.map_err(|m| {
        verif::hmc_clear_overrides();
        Fail::new("run-panic", format!("HMC::run({},{}) panicked: {m}", c.a, c.d))
    })?);
    ensure!(sh1 == vec![c.chains, c.a, dim], "run-shape", "HMC::run({},{}) shape {:?}, expected [{}, {}, {dim}]", c.a, c.d, sh1, c.chains, c.a);
    ensure!(trace1.len() == c.a + c.d, "run-transition-count", "HMC::run({},{}) performed {} steps, expected {}", c.a, c.d, trace1.len(), c.a + c.d);
    // positions after step t = positions_before of step t+1 (last one: sampler.positions)
    let pos_after = |trace: &[verif::HmcStepRecord], t: usize, fin: &Vec<f64>| -> Vec<f64> {
        if t + 1 < trace.len() {
            trace[t + 1].positions_before.clone()
        } else {
            fin.clone()
        }
    };
    let fin1 = to_vec(&s1.positions);
    for k in 0..c.a {
        let want = pos_after(&trace1, c.d + k, &fin1);
        for ch in 0..c.chains {
            for j in 0..dim {
                let got = v1[(ch * c.a + k) * dim + j];
                ensure!(
                    got.to_bits() == want[ch * dim + j].to_bits(),
                    "run-entry",
                    "HMC::run({},{}): entry [chain {ch}, draw {k}, {j}] = {got} but the position of row {ch} after {} steps was {}",
                    c.a,
                    c.d,
                    c.d + k + 1,
                    want[ch * dim + j]
                );
            }
        }
    }
    // row c belongs to the c-th initial state: the first step starts from the given states
    if !trace1.is_empty() {
        let flat: Vec<f64> = inits.iter().flatten().cloned().collect();
        let start = &trace1[0].positions_before;
        let tol = if narrow || std::any::TypeId::of::<B>() == std::any::TypeId::of::<B32>() { 1e-6 } else { 0.0 };
        for i in 0..flat.len() {
            ensure!((start[i] - flat[i]).abs() <= tol * (1.0 + flat[i].abs()), "run-chain-order", "HMC: row order of the initial positions is not preserved");
        }
    }
    let r2 = no_panic(|| s1.run(c.b, 0));
    verif::hmc_clear_overrides();
    let (sh2, v2) = t3(r2.map_err(|m| Fail::new("run-panic", format!("HMC::run({},0) panicked: {m}", c.b)))?);
    ensure!(sh2 == vec![c.chains, c.b, dim], "run-shape", "HMC::run({},0) shape {:?}", c.b, sh2);
    // twin 2: run(a+b, d) with the same injected randomness
    let mut s2 = build();
    arm(0, total);
    let r3 = no_panic(|| s2.run(c.a + c.b, c.d));
    verif::hmc_clear_overrides();
    let (_, v3) = t3(r3.map_err(|m| Fail::new("run-panic", format!("HMC::run({},{}) panicked: {m}", c.a + c.b, c.d)))?);
    for ch in 0..c.chains {
        for k in 0..c.a + c.b {
            for j in 0..dim {
                let joined = if k < c.a { v1[(ch * c.a + k) * dim + j] } else { v2[(ch * c.b + (k - c.a)) * dim + j] };
                let long = v3[(ch * (c.a + c.b) + k) * dim + j];
                ensure!(
                    joined.to_bits() == long.to_bits(),
                    "run-continuation",
                    "HMC ({} chains, L={}): run({},{}) then run({},0) gives {joined} at [chain {ch}, draw {k}, {j}] but run({},{}) of a twin fed the same momenta/uniforms gives {long}",
                    c.chains,
                    c.n_leapfrog,
                    c.a,
                    c.d,
                    c.b,
                    c.a + c.b,
                    c.d
                );
            }
        }
    }
    // left at the last returned state
    let fin = to_vec(&s1.positions);
    let (last, n_last) = if c.b > 0 { (&v2, c.b) } else { (&v1, c.a) };
    for ch in 0..c.chains {
        for j in 0..dim {
            ensure!(
                fin[ch * dim + j].to_bits() == last[(ch * n_last + n_last - 1) * dim + j].to_bits(),
                "run-final-state",
                "HMC: row {ch} is left at a state different from its last returned draw"
            );
        }
    }
    cov.class(if c.f64_backend { "NdArray<f64>" } else { "NdArray<f32>" });
    if narrow {
        cov.class("T=f32-on-f64-backend");
    }
    if c.n_leapfrog == 0 {
        cov.class("L=0");
    }
    if c.a > 1000 {
        cov.class("n_collect>1000");
    }
    if c.d >= 1 && c.a >= 2 && c.chains >= 2 {
        cov.nontrivial_u64(fingerprint(c));
    }
    Ok(())
}

fn check_hmc(c: &HmcCase, cov: &mut Cov) -> CheckResult {
    // (the sampler's scalar type T is independent of the backend's float: T = f32 on
    // NdArray<f64> must still return the backend's own states, bit for bit)
    if c.f64_backend && c.data_seed % 4 == 0 {
        hmc_generic::<f32, B64>(c, cov)
    } else if c.f64_backend {
        hmc_generic::<f64, B64>(c, cov)
    } else {
        hmc_generic::<f64, B32>(c, cov)
    }
}

// ---------------------------------------------------------------------------------------------
// (d) NUTS
// ---------------------------------------------------------------------------------------------

#[derive(Debug, Clone, Serialize, Deserialize)]
pub struct NutsCase {
    /// run the multi-chain comparison with T = f32 on the f64 backend (T narrower than the backend float)
    #[serde(default)]
    pub narrow_t: bool,
    pub spec: Spec,
    pub chains: usize,
    pub seed: u64,
    pub c1: usize,
    pub c2: usize,
    pub d: usize,
    pub data_seed: u64,
    pub threads: usize,
}

fn nuts_strategy() -> BoxedStrategy<NutsCase> {
    bx((gauss_spec(3, 10.0), prop_oneof![5 => 1usize..=4, 1 => 9usize..=20], super::c18::seed_strategy(), 1usize..6, 0usize..5, 0usize..6, any::<u64>(), 1usize..=8).prop_map(
        |(spec, chains, seed, c1, c2, d, data_seed, threads)| NutsCase {
            narrow_t: data_seed % 4 == 0,
            spec,
            chains,
            seed,
            c1,
            c2,
            d,
            data_seed,
            threads,
        },
    ))
}

fn check_nuts(c: &NutsCase, cov: &mut Cov) -> CheckResult {
    type B = B64;
    let dim = c.spec.dim();
    let mut rng = Prng::new(c.data_seed);
    let inits: Vec<Vec<f64>> = (0..c.chains).map(|_| c.spec.interior_point(&mut rng)).collect();
    // (evaluation budget: warm-up can collapse the step size and the library has no depth cap)
    let target = HTarget::with_budget(c.spec.clone(), 2_000_000);
    let n1 = c.c1;
    let n2 = c.c1 + c.c2;
    // single chain with a trace: row k = state after n_discard + k transitions
    let mut ch = NUTSChain::<f64, B, HTarget>::new(target.clone(), inits[0].clone(), 0.8).set_seed(c.seed.wrapping_add(1));
    verif::nuts_trace_start();
    let r = no_panic(|| ch.run(n2, c.d));
    let trace = verif::nuts_trace_take();
    let out = r.map_err(|m| Fail::new("run-panic", format!("NUTSChain::run({n2},{}) panicked: {m}", c.d)))?;
    if target.exhausted() {
        cov.class("evaluation-budget-exhausted-skip");
        return Ok(());
    }
    ensure!(out.dims() == [n2, dim], "run-shape", "NUTSChain::run({n2},{}) shape {:?}", c.d, out.dims());
    let v = to_vec(&out);
    ensure!(
        trace.len() == n2 + c.d - 1,
        "run-transition-count",
        "NUTSChain::run({n2},{}) performed {} transitions, expected n_collect + n_discard - 1 = {}",
        c.d,
        trace.len(),
        n2 + c.d - 1
    );
    for k in 0..n2 {
        let t = c.d + k; // number of transitions performed before this row
        let want: Vec<f64> = if t == 0 { inits[0].clone() } else { trace[t - 1].position_after.clone() };
        // row 0 of a run without warm-up is the start state
        for j in 0..dim {
            let got = v[k * dim + j];
            let okv = if t == 0 { (got - want[j]).abs() <= 1e-12 * (1.0 + want[j].abs()) } else { got.to_bits() == want[j].to_bits() };
            ensure!(okv, "run-entry", "NUTSChain::run({n2},{}): row {k} coord {j} = {got}, state after {t} transitions was {}", c.d, want[j]);
        }
    }
    let (m, ..) = ch.verif_state();
    ensure!(m == n2 + c.d - 1, "run-transition-count", "NUTS counter m = {m} after run({n2},{}), expected {}", c.d, n2 + c.d - 1);
    let pos = to_vec(&ch.position);
    for j in 0..dim {
        ensure!(pos[j].to_bits() == v[(n2 - 1) * dim + j].to_bits(), "run-final-state", "NUTS chain is left at a state different from the last returned row");
    }
    // a second call on the same chain counts its burn-in from the call, not from construction
    {
        let (m2, d2) = (c.c2 + 1, c.d);
        let before = pos.clone();
        verif::nuts_trace_start();
        let r = no_panic(|| ch.run(m2, d2));
        let trace2 = verif::nuts_trace_take();
        let out2 = r.map_err(|m| Fail::new("run-panic", format!("second NUTSChain::run({m2},{d2}) panicked: {m}")))?;
        if target.exhausted() {
            cov.class("evaluation-budget-exhausted-skip");
            return Ok(());
        }
        ensure!(out2.dims() == [m2, dim], "run-shape", "second NUTSChain::run({m2},{d2}) shape {:?}", out2.dims());
        ensure!(
            trace2.len() == m2 + d2 - 1,
            "run-transition-count second-call",
            "a second NUTSChain::run({m2},{d2}) on a chain that had made {} transitions performed {} transitions, expected n_collect + n_discard - 1 = {}",
            n2 + c.d - 1,
            trace2.len(),
            m2 + d2 - 1
        );
        let v2 = to_vec(&out2);
        for k in 0..m2 {
            let t = d2 + k;
            let want: &Vec<f64> = if t == 0 { &before } else { &trace2[t - 1].position_after };
            for j in 0..dim {
                ensure!(
                    v2[k * dim + j].to_bits() == want[j].to_bits(),
                    "run-entry second-call",
                    "second NUTSChain::run({m2},{d2}): row {k} coord {j} = {}, but the state {t} transitions after the call was {}",
                    v2[k * dim + j],
                    want[j]
                );
            }
        }
        let (m_now, ..) = ch.verif_state();
        ensure!(m_now == n2 + c.d - 1 + m2 + d2 - 1, "run-transition-count second-call", "NUTS counter m = {m_now} after two runs, expected {}", n2 + c.d - 1 + m2 + d2 - 1);
        let pos2 = to_vec(&ch.position);
        for j in 0..dim {
            ensure!(pos2[j].to_bits() == v2[(m2 - 1) * dim + j].to_bits(), "run-final-state", "NUTS chain is left at a state different from the last returned row (second call)");
        }
        cov.class("second-run-on-the-same-chain");
    }
    // prefix consistency in n_collect
    if n1 < n2 {
        let mut ch2 = NUTSChain::<f64, B, HTarget>::new(target.clone(), inits[0].clone(), 0.8).set_seed(c.seed.wrapping_add(1));
        let short = to_vec(&ch2.run(n1, c.d));
        for i in 0..n1 * dim {
            if target.exhausted() {
                cov.class("evaluation-budget-exhausted-skip");
                return Ok(());
            }
            ensure!(short[i].to_bits() == v[i].to_bits(), "run-prefix", "NUTSChain::run({n1},{}) is not a prefix of run({n2},{}) for the same seed", c.d, c.d);
        }
        cov.class("prefix-checked");
    }
    // multi-chain runner == individual chains with seeds s+i+1
    let pool = rayon::ThreadPoolBuilder::new().num_threads(c.threads).build().map_err(|e| Fail::new("harness", format!("pool: {e}")))?;
    let mut multi = NUTS::<f64, B, HTarget>::new(target.clone(), inits.clone(), 0.8).set_seed(c.seed);
    let all = no_panic(|| pool.install(|| multi.run(n2, c.d))).map_err(|m| Fail::new("run-panic", format!("NUTS::run panicked: {m}")))?;
    ensure!(all.dims() == [c.chains, n2, dim], "run-shape", "NUTS::run({n2},{}) shape {:?}, expected [{}, {n2}, {dim}]", c.d, all.dims(), c.chains);
    let av = to_vec(&all);
    for i in 0..c.chains {
        let mut single = NUTSChain::<f64, B, HTarget>::new(target.clone(), inits[i].clone(), 0.8).set_seed(c.seed.wrapping_add(i as u64).wrapping_add(1));
        let sv = to_vec(&single.run(n2, c.d));
        for k in 0..n2 * dim {
            if target.exhausted() {
                cov.class("evaluation-budget-exhausted-skip");
                return Ok(());
            }
            ensure!(
                sv[k].to_bits() == av[i * n2 * dim + k].to_bits(),
                "run-multi-vs-single",
                "NUTS::run: chain {i} of {} differs from the stand-alone chain with seed s+{i}+1 (flat index {k})",
                c.chains
            );
        }
    }
    if target.exhausted() {
        cov.class("evaluation-budget-exhausted-skip");
        return Ok(());
    }
    if c.narrow_t {
        // T = f32 on NdArray<f64>: the runner must return exactly what its chains return
        let inits32: Vec<Vec<f32>> = inits.iter().map(|r| r.iter().map(|v| *v as f32).collect()).collect();
        let mut multi = NUTS::<f32, B, HTarget>::new(target.clone(), inits32.clone(), 0.8).set_seed(c.seed);
        let all = no_panic(|| pool.install(|| multi.run(n2, c.d))).map_err(|m| Fail::new("run-panic", format!("NUTS::<f32, f64 backend>::run panicked: {m}")))?;
        let av = to_vec(&all);
        for i in 0..c.chains.min(3) {
            let mut single = NUTSChain::<f32, B, HTarget>::new(target.clone(), inits32[i].clone(), 0.8).set_seed(c.seed.wrapping_add(i as u64).wrapping_add(1));
            let sv = to_vec(&single.run(n2, c.d));
            for k in 0..n2 * dim {
                ensure!(
                    sv[k].to_bits() == av[i * n2 * dim + k].to_bits(),
                    "run-multi-vs-single narrow-T",
                    "NUTS::<f32, NdArray<f64>>::run: chain {i} returns {} where the stand-alone chain returns {} (flat index {k})",
                    av[i * n2 * dim + k],
                    sv[k]
                );
            }
        }
        cov.class("T=f32-on-f64-backend");
    }
    if c.d >= 1 && n2 >= 2 && c.chains >= 2 {
        cov.nontrivial_u64(fingerprint(c));
    }
    if c.d == 0 {
        cov.class("n_discard=0");
    }
    Ok(())
}

pub fn run(ctx: &mut Ctx) {
    ctx.rule = "histories of 1..5 run(n_collect 0..60, n_discard 0..60) calls on user-defined counting chains (1..32 chains, dim 1..16, chain-specific delays, pool sizes 1..16); MH / Gibbs twins (continuation, burn-in suffix, manual stepping); HMC with injected momenta/uniforms and a step trace; NUTS chains with a transition trace and the multi-chain runner; non-trivial = n_discard >= 1, n_collect >= 2, n_chains >= 2; distinct by case fingerprint".into();
    ctx.assume("HMC continuation is compared under injected momenta/uniforms (hook), so it does not depend on which generator the sampler uses");
    let t = ctx.tier;
    ctx.section("counter", "counting chains: shape, row c = chain c, entry k = prior + n_discard + k + 1, no transition more than needed, across consecutive calls", t.pick(40_000, 1_200_000), 16, counter_strategy, check_counter);
    ctx.section("mh-gibbs", "run(a,d)+run(b,0) = run(a+b,d) of a twin; run(a,d) = rows d.. of run(a+d,0); manual step() on a twin; final state = last row", t.pick(6_000, 200_000), 16, sampler_strategy, check_sampler);
    ctx.section("hmc", "rows = traced positions after n_discard+k+1 steps; exact step count; continuation under injected randomness; final state", t.pick(4_000, 120_000), 16, hmc_strategy, check_hmc);
    ctx.section("nuts", "row k = state after n_discard+k transitions (trace); counter advance; prefix consistency; NUTS::run = stand-alone chains with seeds s+i+1", t.pick(2_000, 60_000), 16, nuts_strategy, check_nuts);
}

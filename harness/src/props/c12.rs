//! C12 — ESS = M*N/tau with Geyer's initial monotone sequence, brute-force and FFT paths.

use super::statgen::{arr_case, gen_all, gen_param, to_array3, ArrCase, ParamModel};
use crate::engine::num::{Prng, R};
use crate::engine::{bx, fingerprint, no_panic, CheckResult, Cov, Ctx, Fail, Tier};
use crate::ensure;
use crate::refs::stats as rs;
use mini_mcmc::stats::split_rhat_mean_ess;
use ndarray::Array3;
use proptest::prelude::*;
use serde::{Deserialize, Serialize};

/// error model of the library's f32 autocorrelation estimate (absolute, in units of rho)
pub fn rho_delta(pm: &ParamModel) -> f64 {
    let r = (pm.loc.0 / pm.scale.0).abs();
    2e-5 * (1.0 + r / 10.0)
}
pub const ESS_RTOL: f64 = 1e-3;

fn lib_ess(a: &Array3<f32>) -> Result<Vec<f64>, Fail> {
    let r = no_panic(|| split_rhat_mean_ess(a.view()))
        .map_err(|m| Fail::new("ess-panic", format!("split_rhat_mean_ess panicked: {m}")))?;
    Ok(r.1.iter().map(|x| *x as f64).collect())
}

fn degenerate(chains: &rs::Chains, pm: &ParamModel) -> bool {
    let halves = rs::split_halves(chains);
    let wv = rs::within_var(&halves, false);
    !(wv.w > 1e-9 * pm.scale.0 * pm.scale.0) || wv.h < 4
}

/// interval oracle for one parameter, in tau space (tau = M*N/ESS is continuous in the data,
/// ESS itself has a pole at tau = 0); returns Ok(Some(reference)) when compared
fn check_param(got: f64, chains: &rs::Chains, pm: &ParamModel, cov: &mut Cov, what: &str) -> Result<Option<rs::EssRef>, Fail> {
    if degenerate(chains, pm) {
        cov.class("param-degenerate");
        return Ok(None);
    }
    let delta = rho_delta(pm);
    let a = rs::ess(chains, false, delta);
    let b = rs::ess(chains, true, delta);
    let tau_got = a.mn / got;
    let inside = |e: &rs::EssRef| {
        let (lo, hi) = (e.tau_lo, e.tau_hi);
        let tol = ESS_RTOL * e.tau.abs() + 2e-6;
        tau_got >= lo - tol && tau_got <= hi + tol
    };
    if inside(&a) {
        cov.class("matches divisor-n");
        cov.track_max("tau_interval_width", a.tau_hi - a.tau_lo);
        cov.track_max("tau_point_rel_dev", ((tau_got - a.tau) / a.tau).abs());
        Ok(Some(a))
    } else if inside(&b) {
        cov.class("matches divisor-n-1");
        Ok(Some(b))
    } else {
        Err(Fail::new(
            "ess-value",
            format!(
                "{what}: library ESS = {got} (tau = {tau_got}), reference M*N/tau = {} (tau = {} in [{}, {}], {} pairs, M*N = {})",
                a.ess, a.tau, a.tau_lo, a.tau_hi, a.pairs, a.mn
            ),
        ))
    }
}

pub fn check_arr(case: &ArrCase, cov: &mut Cov) -> CheckResult {
    let per_param = gen_all(case);
    let arr = to_array3(&per_param);
    let ess = lib_ess(&arr)?;
    ensure!(ess.len() == case.params.len(), "ess-shape", "{} ESS values for {} parameters", ess.len(), case.params.len());
    let h = case.draws / 2;
    let mut nontrivial = (96..=104).contains(&h);
    for (p, chains) in per_param.iter().enumerate() {
        let what = format!("param {p} ({} chains x {} draws, kind {}, phi {:?})", case.chains, case.draws, case.params[p].kind, case.params[p].phi);
        if let Some(r) = check_param(ess[p], chains, &case.params[p], cov, &what)? {
            if r.tau > 1.5 {
                nontrivial = true;
                cov.class("tau>1.5");
            }
            if r.pairs >= 8 {
                cov.class("pairs>=8");
            }
        }
    }
    cov.class(if h <= 100 { "brute-force path" } else { "fft path" });
    if (96..=104).contains(&h) {
        cov.class("straddles-100-switch");
    }
    if nontrivial {
        cov.nontrivial_u64(fingerprint(case));
    }
    Ok(())
}

// ------------------------------------------------------------------------------------------
// path agreement around the 100-row switch, metamorphic relations, calibration of ESS/N
// ------------------------------------------------------------------------------------------

#[derive(Debug, Clone, Serialize, Deserialize)]
pub struct MetaCase {
    pub chains: usize,
    pub half: usize,
    pub odd: bool,
    pub pm: ParamModel,
    pub a: R,
    pub b: R,
    pub data_seed: u64,
    pub perm_seed: u64,
}

fn meta_strategy() -> BoxedStrategy<MetaCase> {
    let half = prop_oneof![3 => 4usize..60, 4 => 94usize..108, 2 => 108usize..400, 1 => 400usize..1100];
    bx((
        1usize..=6,
        half,
        any::<bool>(),
        super::statgen::param_model(false),
        prop_oneof![Just(-1.0f64), 0.25f64..4.0, Just(-3.0f64)],
        prop_oneof![Just(0.0f64), -3.0f64..3.0],
        any::<u64>(),
        any::<u64>(),
    )
        .prop_map(|(chains, half, odd, pm, a, b, data_seed, perm_seed)| MetaCase {
            chains,
            half,
            odd,
            pm,
            a: R(a),
            b: R(b),
            data_seed,
            perm_seed,
        }))
}

fn one_param_arr(chains: &rs::Chains) -> Array3<f32> {
    to_array3(&[chains.clone()])
}

fn check_meta(case: &MetaCase, cov: &mut Cov) -> CheckResult {
    let draws = 2 * case.half + case.odd as usize;
    let pm = &case.pm;
    let chains = gen_param(pm, case.chains, draws, case.data_seed);
    if degenerate(&chains, pm) {
        cov.class("degenerate-skip");
        return Ok(());
    }
    let e0 = lib_ess(&one_param_arr(&chains))?[0];
    let r0 = match check_param(e0, &chains, pm, cov, "base")? {
        Some(r) => r,
        None => return Ok(()),
    };
    // slack of a metamorphic comparison in tau space: both sides lie within their intervals
    let slack = |r: &rs::EssRef| (r.tau_hi - r.tau_lo) + 4.0 * ESS_RTOL * r.tau.abs() + 1e-5;
    let s0 = slack(&r0);
    let mn = r0.mn;
    let t0 = mn / e0;

    // (1) time reversal: the reference is exactly invariant (autocovariances are symmetric and
    // the two halves swap roles), so the library must agree within the interval slack
    let reversed: rs::Chains = chains.iter().map(|c| c.iter().rev().cloned().collect()).collect();
    let e1 = lib_ess(&one_param_arr(&reversed))?[0];
    ensure!((mn / e1 - t0).abs() <= s0, "ess-reversal", "ESS changed from {e0} to {e1} under time reversal (tau {t0} -> {}, allowed slack {s0:e})", mn / e1);

    // (2) chain permutation
    let mut order: Vec<usize> = (0..case.chains).collect();
    let mut rng = Prng::new(case.perm_seed);
    for i in (1..order.len()).rev() {
        let j = rng.below(i as u64 + 1) as usize;
        order.swap(i, j);
    }
    let permuted: rs::Chains = order.iter().map(|&i| chains[i].clone()).collect();
    let e2 = lib_ess(&one_param_arr(&permuted))?[0];
    ensure!((mn / e2 - t0).abs() <= s0, "ess-permutation", "ESS changed from {e0} to {e2} under chain permutation {:?}", order);

    // (3) affine map (checked against its own reference interval and against the base value)
    let mapped: rs::Chains = chains
        .iter()
        .map(|c| c.iter().map(|x| ((case.a.0 * x + case.b.0 * pm.scale.0) as f32) as f64).collect())
        .collect();
    let mut pm2 = pm.clone();
    pm2.loc = R(case.a.0 * pm.loc.0 + case.b.0 * pm.scale.0);
    pm2.scale = R(case.a.0.abs() * pm.scale.0);
    let e3 = lib_ess(&one_param_arr(&mapped))?[0];
    if let Some(r3) = check_param(e3, &mapped, &pm2, cov, "affine image")? {
        let s3 = slack(&r3) + s0;
        ensure!(
            (mn / e3 - t0).abs() <= s3 + (r3.tau - r0.tau).abs(),
            "ess-affine",
            "ESS changed from {e0} to {e3} under x -> {}*x + {}",
            case.a.0,
            case.b.0 * pm.scale.0
        );
    }

    // (4) the same data extended / truncated by a few draws across the 100-row switch: each
    // length is checked against its own reference, so both autocovariance paths are compared
    // with one oracle on nearly identical data
    if (94..108).contains(&case.half) {
        let long = gen_param(pm, case.chains, 2 * 110, case.data_seed);
        for hh in [98usize, 99, 100, 101, 102, 103] {
            let cut: rs::Chains = long.iter().map(|c| c[..2 * hh].to_vec()).collect();
            if degenerate(&cut, pm) {
                continue;
            }
            let e = lib_ess(&one_param_arr(&cut))?[0];
            check_param(e, &cut, pm, cov, &format!("prefix of half-length {hh}"))?;
        }
        cov.class("switch-sweep");
    }
    cov.nontrivial_u64(fingerprint(case));
    Ok(())
}

#[derive(Debug, Clone, Serialize, Deserialize)]
pub struct CalibCase {
    pub chains: usize,
    pub draws: usize,
    pub phi: R,
    pub data_seed: u64,
}

fn calib_strategy() -> BoxedStrategy<CalibCase> {
    bx((2usize..=6, 2000usize..=5000, prop_oneof![2 => Just(0.0f64), 5 => -0.6f64..0.9], any::<u64>()).prop_map(
        |(chains, draws, phi, data_seed)| CalibCase {
            chains,
            draws,
            phi: R(phi),
            data_seed,
        },
    ))
}

fn check_calib(case: &CalibCase, cov: &mut Cov) -> CheckResult {
    let phi = case.phi.0;
    let pm = ParamModel {
        kind: if phi == 0.0 { 0 } else { 1 },
        phi: case.phi,
        loc: R(0.0),
        scale: R(1.0),
        spread: R(0.0),
    };
    let chains = gen_param(&pm, case.chains, case.draws, case.data_seed);
    let e = lib_ess(&one_param_arr(&chains))?[0];
    let n_total = (case.chains * (case.draws / 2) * 2) as f64;
    if phi == 0.0 {
        let ratio = e / n_total;
        cov.track_max("iid_ratio_max", ratio);
        cov.track_max("iid_ratio_min_neg", -ratio);
        ensure!((0.7..=1.5).contains(&ratio), "ess-iid-calibration", "independent draws: ESS/N = {ratio} (ESS {e}, N {n_total})");
        cov.class("iid");
    } else {
        let want = n_total * (1.0 - phi) / (1.0 + phi);
        let ratio = e / want;
        cov.track_max("ar1_ratio_max", ratio);
        cov.track_max("ar1_ratio_min_neg", -ratio);
        ensure!((0.5..=2.0).contains(&ratio), "ess-ar1-calibration", "AR(1) phi={phi}: ESS / (N(1-phi)/(1+phi)) = {ratio} (ESS {e}, N {n_total})");
        cov.class("ar1");
        cov.nontrivial_u64(fingerprint(case));
    }
    Ok(())
}

// ------------------------------------------------------------------------------------------
// MultiChainTracker::stats(sample): the diagnostics of the sample it is handed, whatever the
// tracker itself has seen so far
// ------------------------------------------------------------------------------------------

#[derive(Debug, Clone, Serialize, Deserialize)]
pub struct TrackerStatsCase {
    pub arr: ArrCase,
    /// how many times the tracker was stepped before `stats` is called (0 = fresh)
    pub tracker_steps: usize,
    pub f64_backend: bool,
}

fn tracker_stats_strategy() -> BoxedStrategy<TrackerStatsCase> {
    bx((arr_case(6, 600, false), prop_oneof![2 => Just(0usize), 3 => 1usize..40, 1 => 40usize..800], any::<bool>()).prop_map(|(arr, tracker_steps, f64_backend)| TrackerStatsCase { arr, tracker_steps, f64_backend }))
}

fn check_tracker_stats(c: &TrackerStatsCase, cov: &mut Cov) -> CheckResult {
    use burn::backend::NdArray;
    use burn::prelude::*;
    use mini_mcmc::stats::{MultiChainTracker, RunStats};
    let per_param = gen_all(&c.arr);
    let arr = to_array3(&per_param);
    let (ch, n, p) = arr.dim();
    let mut tr = MultiChainTracker::new(ch, p);
    for t in 0..c.tracker_steps {
        // the states the tracker saw: the first rows of the sample (cyclically)
        let flat: Vec<f32> = (0..ch).flat_map(|i| (0..p).map(move |q| (i, q))).map(|(i, q)| arr[[i, t % n, q]]).collect();
        tr.step(&flat).map_err(|e| Fail::new("tracker-error", format!("MultiChainTracker::step: {e}")))?;
    }
    let flat: Vec<f64> = arr.iter().map(|v| *v as f64).collect();
    let got = if c.f64_backend {
        let t = Tensor::<NdArray<f64>, 3>::from_data(TensorData::new(flat.clone(), [ch, n, p]), &Default::default());
        no_panic(|| tr.stats(t))
    } else {
        let t = Tensor::<NdArray<f32>, 3>::from_data(TensorData::new(flat.clone(), [ch, n, p]), &Default::default());
        no_panic(|| tr.stats(t))
    }
    .map_err(|m| Fail::new("tracker-panic", format!("MultiChainTracker::stats panicked: {m}")))?
    .map_err(|e| Fail::new("tracker-error", format!("MultiChainTracker::stats returned an error: {e}")))?;
    let want = RunStats::from(arr.view());
    let f = |x: f32, y: f32| x.to_bits() == y.to_bits() || (x.is_nan() && y.is_nan());
    let same = |a: &mini_mcmc::stats::BasicStats, b: &mini_mcmc::stats::BasicStats| f(a.min, b.min) && f(a.max, b.max) && f(a.mean, b.mean) && f(a.std, b.std) && f(a.median, b.median);
    ensure!(
        same(&got.ess, &want.ess) && same(&got.rhat, &want.rhat),
        "tracker-stats-differ",
        "MultiChainTracker::stats (tracker stepped {} times, sample of {n} draws): {:?}; diagnostics of that sample: {:?}",
        c.tracker_steps,
        got,
        want
    );
    cov.class(if c.tracker_steps == 0 { "fresh-tracker" } else if c.tracker_steps < n { "tracker-stepped-fewer-times-than-draws" } else { "tracker-stepped-at-least-draws-times" });
    if c.tracker_steps > 0 && c.tracker_steps < n {
        cov.nontrivial_u64(fingerprint(c));
    }
    Ok(())
}

pub fn run(ctx: &mut Ctx) {
    ctx.rule = "sample arrays as in C11 plus AR(1) phi in (-0.9,0.99), half-lengths 94..108 around the 100-row brute-force/FFT switch and non-power-of-two FFT paddings; non-trivial = reference tau > 1.5 (correlated) or a half-length in 96..104 or a metamorphic/calibration case; distinct by case fingerprint".into();
    ctx.assume("interval oracle: the estimator is monotone in every autocorrelation, so the library value must lie in [MN/tau(rho+d), MN/tau(rho-d)](1+-1e-3) with d = 2e-5(1+|loc/scale|/10), the f32 error model of the autocovariance (calibrated; observed widths in evidence)");
    ctx.assume("divisor of the within-half variance (n or n-1) not fixed by the statement: both accepted");
    let t = ctx.tier;
    let long = if t == Tier::Quick { 2000 } else { 5000 };
    ctx.section(
        "ess-reference",
        "library ESS vs f64 Geyer reference (interval oracle), both autocovariance paths by construction",
        t.pick(25_000, 800_000),
        16,
        move || bx(arr_case(16, long, false)),
        check_arr,
    );
    ctx.section(
        "ess-metamorphic",
        "time reversal, chain permutation, affine map; prefixes of half-length 98..103 of one data set against the reference (both paths on the same data)",
        t.pick(6_000, 200_000),
        16,
        meta_strategy,
        check_meta,
    );
    ctx.section(
        "tracker-stats",
        "MultiChainTracker::stats(sample) = diagnostics of that sample (RunStats::from), for trackers stepped 0, fewer-than-draws or many times, f32 and f64 tensors",
        t.pick(4_000, 120_000),
        16,
        tracker_stats_strategy,
        check_tracker_stats,
    );
    ctx.section(
        "ess-calibration",
        "iid => ESS/N in [0.7,1.5]; AR(1) => ESS/(N(1-phi)/(1+phi)) in [0.5,2], N >= 2000 per chain",
        t.pick(600, 20_000),
        16,
        calib_strategy,
        check_calib,
    );
}

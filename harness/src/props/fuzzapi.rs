//! Entry points of the libFuzzer targets (/verif/fuzz): bytes are decoded with
//! `arbitrary::Unstructured` into the same case structs and run through the same oracle
//! functions as the proptest sections. On a failure the shrunk-by-libFuzzer input is turned into
//! a replay file and the process aborts (libFuzzer then saves the raw input as well).

use crate::engine::num::R;
use crate::engine::{Cov, Fail, ReplayFile};
use crate::props::statgen::{ArrCase, ParamModel};
use crate::props::{c01, c11, c12, c13, c16, c17};
use arbitrary::Unstructured;
use serde::Serialize;

fn fail<C: Serialize>(id: &str, section: &str, case: &C, f: &Fail) -> ! {
    let dir = std::path::PathBuf::from(std::env::var("VERIF_DIR").unwrap_or_else(|_| "/verif".into())).join("replays");
    let _ = std::fs::create_dir_all(&dir);
    let js = serde_json::to_value(case).unwrap_or(serde_json::Value::Null);
    let h = crate::engine::fingerprint(&js);
    let path = dir.join(format!("{id}-{section}-fuzz-{h:016x}.json"));
    let rf = ReplayFile {
        property: id.into(),
        section: section.into(),
        case: js,
        message: f.msg.clone(),
        signature: f.sig.clone(),
        seed: 0,
    };
    let _ = std::fs::write(&path, serde_json::to_string_pretty(&rf).unwrap());
    println!("FUZZ-FAIL property={id} section={section} sig=[{}] {}", f.sig, f.msg);
    println!("FUZZ-REPLAY property={id} replay={}", path.display());
    std::process::abort();
}

fn run<C: Serialize>(id: &str, section: &str, case: &C, check: impl Fn(&C, &mut Cov) -> Result<(), Fail>) {
    let mut cov = Cov::new();
    let r = std::panic::catch_unwind(std::panic::AssertUnwindSafe(|| check(case, &mut cov)));
    match r {
        Ok(Ok(())) => {}
        Ok(Err(f)) => fail(id, section, case, &f),
        Err(_) => fail(id, section, case, &Fail::new("panic", format!("panicked: {}", crate::engine::take_last_panic()))),
    }
}

fn f64_mix(u: &mut Unstructured) -> f64 {
    match u.int_in_range(0..=9u8).unwrap_or(0) {
        0 => 0.0,
        1 => -0.0,
        2 => f64::NEG_INFINITY,
        3 => f64::INFINITY,
        4 => f64::NAN,
        5 => 1e30,
        6 => -1e30,
        7 => u.int_in_range(-40i32..=40).unwrap_or(0) as f64 * 0.75,
        _ => f64::from_bits(u.arbitrary::<u64>().unwrap_or(0)).clamp(-1e300, 1e300),
    }
}

pub fn categorical(data: &[u8]) {
    let mut u = Unstructured::new(data);
    let n = u.int_in_range(1..=64usize).unwrap_or(1);
    let mut w: Vec<f64> = (0..n)
        .map(|_| match u.int_in_range(0..=6u8).unwrap_or(0) {
            0 | 1 => 0.0,
            2 => 1e-30,
            3 => 1e20,
            4 => f32::MIN_POSITIVE as f64,
            _ => (u.arbitrary::<u32>().unwrap_or(1) as f64 + 1.0) / 4294967296.0,
        })
        .collect();
    if w.iter().all(|x| *x == 0.0) {
        w[0] = 0.5;
    }
    let case = c16::Case {
        f32: u.arbitrary().unwrap_or(false),
        weights: w.into_iter().map(R).collect(),
        vsel: u.int_in_range(0..=4u8).unwrap_or(0),
        vraw: u.arbitrary().unwrap_or(0),
        bidx: u.arbitrary().unwrap_or(0),
        bdelta: u.int_in_range(-2i8..=2).unwrap_or(0),
        salt: u.arbitrary().unwrap_or(0),
        oob: u.int_in_range(0..=99u16).unwrap_or(0),
    };
    run("C16", "inject", &case, c16::check);
}

pub fn mh_step(data: &[u8]) {
    let mut u = Unstructured::new(data);
    let d = u.int_in_range(1..=4usize).unwrap_or(1);
    let coord = |u: &mut Unstructured| -> f64 {
        match u.int_in_range(0..=5u8).unwrap_or(0) {
            0 => f64::NAN,
            1 => -0.0,
            2 => 0.0,
            _ => u.int_in_range(-1000i32..=1000).unwrap_or(0) as f64 * 0.1,
        }
    };
    let case = c01::ScriptCase {
        st: u.int_in_range(0..=3u8).unwrap_or(0),
        f32: u.arbitrary().unwrap_or(false),
        x: (0..d).map(|_| R(coord(&mut u))).collect(),
        y: (0..d).map(|_| R(coord(&mut u))).collect(),
        lp_x: R(f64_mix(&mut u)),
        lp_y: R(f64_mix(&mut u)),
        q_xy: R(f64_mix(&mut u)),
        q_yx: R(f64_mix(&mut u)),
        usel: u.int_in_range(0..=5u8).unwrap_or(0),
        kraw: u.arbitrary().unwrap_or(0),
        kdelta: u.int_in_range(-1i8..=1).unwrap_or(0),
        salt: u.arbitrary().unwrap_or(0),
    };
    run("C01", "scripted", &case, c01::check_script);
}

fn param_model(u: &mut Unstructured, allow_constant: bool, max_ratio: f64) -> ParamModel {
    let kind = u.int_in_range(0..=if allow_constant { 6u8 } else { 5u8 }).unwrap_or(0);
    let scale = [1.0, 0.01, 100.0, 1e-3, 1e3, 3.0][u.int_in_range(0..=5usize).unwrap_or(0)];
    let ratio = (u.int_in_range(-1000i32..=1000).unwrap_or(0) as f64 / 1000.0) * max_ratio;
    ParamModel {
        kind,
        phi: R(u.int_in_range(-89i32..=98).unwrap_or(0) as f64 / 100.0),
        loc: R(ratio * scale),
        scale: R(scale),
        spread: R(u.int_in_range(0..=300u32).unwrap_or(0) as f64 / 10.0),
    }
}

pub fn stats(data: &[u8]) {
    let mut u = Unstructured::new(data);
    match u.int_in_range(0..=3u8).unwrap_or(0) {
        0 => {
            // summary statistics with NaN / inf of any density
            let n = u.int_in_range(1..=256usize).unwrap_or(1);
            let values: Vec<R> = (0..n)
                .map(|_| {
                    R(match u.int_in_range(0..=7u8).unwrap_or(0) {
                        0 => f64::NAN,
                        1 => f64::INFINITY,
                        2 => f64::NEG_INFINITY,
                        3 => 1.0,
                        _ => (u.int_in_range(-100000i32..=100000).unwrap_or(0) as f64 * 0.001) as f32 as f64,
                    })
                })
                .collect();
            run("C11", "summary", &c11::SummaryCase { values }, c11::check_summary);
        }
        k => {
            let np = u.int_in_range(1..=4usize).unwrap_or(1);
            // lengths around the interesting boundaries: tiny, odd, the 100-row switch
            let draws = match u.int_in_range(0..=3u8).unwrap_or(0) {
                0 => u.int_in_range(4..=12usize).unwrap_or(4),
                1 => 2 * u.int_in_range(2..=40usize).unwrap_or(2) + 1,
                2 => u.int_in_range(190..=212usize).unwrap_or(200),
                _ => u.int_in_range(12..=320usize).unwrap_or(12),
            };
            let case = ArrCase {
                chains: u.int_in_range(1..=6usize).unwrap_or(1),
                draws,
                params: (0..np).map(|_| param_model(&mut u, k == 1, if k == 1 { 5000.0 } else { 100.0 })).collect(),
                data_seed: u.arbitrary().unwrap_or(0),
            };
            match k {
                1 => {
                    run("C11", "rhat-reference", &case, c11::check_arr);
                    run("C11", "runstats", &case, c11::check_runstats);
                }
                2 => run("C12", "ess-reference", &case, c12::check_arr),
                _ => {
                    let c = c13::Case {
                        move_kind: u.int_in_range(0..=2u8).unwrap_or(0),
                        int_scale: [1, 100, 8000][u.int_in_range(0..=2usize).unwrap_or(0)],
                        chains: case.chains.max(2),
                        len: case.draws.min(200),
                        params: case
                            .params
                            .iter()
                            .map(|p| {
                                let mut q = p.clone();
                                q.kind = [0, 1, 3, 4][(p.kind % 4) as usize];
                                q.loc = R(q.loc.0.clamp(-10.0 * q.scale.0, 10.0 * q.scale.0));
                                q.spread = R(q.spread.0.min(10.0));
                                q
                            })
                            .collect(),
                        etype: u.int_in_range(0..=3u8).unwrap_or(0),
                        stick: R(u.int_in_range(0..=100u32).unwrap_or(0) as f64 / 100.0),
                        data_seed: case.data_seed,
                    };
                    run("C13", "trackers", &c, c13::check);
                }
            }
        }
    }
}

pub fn io(data: &[u8]) {
    let mut u = Unstructured::new(data);
    let fmt = u.int_in_range(0..=2u8).unwrap_or(0);
    let tensor = u.arbitrary::<bool>().unwrap_or(false) && fmt != 1;
    let et = u.int_in_range(0..=4u8).unwrap_or(0);
    let case = c17::Case {
        layout: u.int_in_range(0..=3u8).unwrap_or(0),
        prefill: u.int_in_range(0..=3u8).unwrap_or(0) == 0,
        fmt,
        tensor,
        etype: if tensor { et % 2 } else if fmt == 0 { et % 4 } else { et },
        shape: [u.int_in_range(0..=6usize).unwrap_or(1), u.int_in_range(0..=40usize).unwrap_or(1), u.int_in_range(0..=8usize).unwrap_or(1)],
        fill_seed: u.arbitrary().unwrap_or(0),
        special_rate: R(u.int_in_range(0..=60u32).unwrap_or(0) as f64 / 100.0),
        path_kind: [0, 0, 0, 0, 1, 2, 3, 3][u.int_in_range(0..=7usize).unwrap_or(0)],
    };
    run("C17", "roundtrip", &case, c17::check);
}

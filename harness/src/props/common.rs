//! Shared helpers: backend aliases and tensor <-> f64 conversion.

use burn::backend::{Autodiff, NdArray};
use burn::prelude::*;

pub type B32 = Autodiff<NdArray<f32>>;
pub type B64 = Autodiff<NdArray<f64>>;

pub fn tensor1<B: Backend>(v: &[f64]) -> Tensor<B, 1> {
    Tensor::<B, 1>::from_data(TensorData::new(v.to_vec(), [v.len()]), &B::Device::default())
}

pub fn tensor2<B: Backend>(v: &[f64], rows: usize, cols: usize) -> Tensor<B, 2> {
    Tensor::<B, 2>::from_data(TensorData::new(v.to_vec(), [rows, cols]), &B::Device::default())
}

pub fn to_vec<B: Backend, const D: usize>(t: &Tensor<B, D>) -> Vec<f64> {
    t.to_data().iter::<f64>().collect()
}

use crate::engine::xo::{rng_f32_k, rng_f64_k, F32_DEN, F64_DEN};
use rand::rngs::SmallRng;

/// the two float types of the library's scalar code, with crafted-generator support
pub trait Fl:
    num_traits::Float + std::ops::AddAssign + std::fmt::Debug + Copy + Send + Sync + 'static
{
    const BITS: u32;
    fn of(x: f64) -> Self;
    fn f(self) -> f64;
    fn crafted(k: u64, salt: u64) -> SmallRng;
    fn den() -> f64;
    fn next_up_(self) -> Self;
    fn next_down_(self) -> Self;
}
impl Fl for f32 {
    const BITS: u32 = 24;
    fn of(x: f64) -> f32 {
        x as f32
    }
    fn f(self) -> f64 {
        self as f64
    }
    fn crafted(k: u64, salt: u64) -> SmallRng {
        rng_f32_k(k, salt)
    }
    fn den() -> f64 {
        F32_DEN
    }
    fn next_up_(self) -> f32 {
        crate::engine::num::next_up32(self)
    }
    fn next_down_(self) -> f32 {
        crate::engine::num::next_down32(self)
    }
}
impl Fl for f64 {
    const BITS: u32 = 53;
    fn of(x: f64) -> f64 {
        x
    }
    fn f(self) -> f64 {
        self
    }
    fn crafted(k: u64, salt: u64) -> SmallRng {
        rng_f64_k(k, salt)
    }
    fn den() -> f64 {
        F64_DEN
    }
    fn next_up_(self) -> f64 {
        crate::engine::num::next_up(self)
    }
    fn next_down_(self) -> f64 {
        crate::engine::num::next_down(self)
    }
}


//! Shared helpers: backend aliases and tensor <-> f64 conversion.

use burn::backend::{Autodiff, NdArray};
use burn::prelude::*;

pub type B32 = Autodiff<NdArray<f32>>;
pub type B64 = Autodiff<NdArray<f64>>;

pub fn tensor1<B: Backend>(v: &[f64]) -> Tensor<B, 1> {
    Tensor::<B, 1>::from_data(TensorData::new(v.to_vec(), [v.len()]), &B::Device::default())
}

pub fn tensor2<B: Backend>(v: &[f64], rows: usize, cols: usize) -> Tensor<B, 2> {
    Tensor::<B, 2>::from_data(TensorData::new(v.to_vec(), [rows, cols]), &B::Device::default())
}

pub fn to_vec<B: Backend, const D: usize>(t: &Tensor<B, D>) -> Vec<f64> {
    t.to_data().iter::<f64>().collect()
}

//! C06 — long-run averages of every sampler converge to the target's expectations (calibrated
//! statistical check: chains start in the target distribution, the error bar is the spread over
//! independent chains, threshold |z| > 6.5, confirm-by-rerun).

use super::common::*;
use super::targets::{cholesky, gauss_spec, HTarget, Spec};
use crate::engine::num::{phi, Prng, R};
use crate::engine::{bx, fingerprint, no_panic, CheckResult, Cov, Ctx, Fail};
use burn::tensor::backend::AutodiffBackend;
use mini_mcmc::core::ChainRunner;
use mini_mcmc::distributions::{Categorical, Conditional, DiffableGaussian2D, IsotropicGaussian, Proposal, Target};
use mini_mcmc::gibbs::GibbsSampler;
use mini_mcmc::hmc::HMC;
use mini_mcmc::metropolis_hastings::MetropolisHastings;
use mini_mcmc::nuts::NUTS;
use proptest::prelude::*;
use rand::rngs::SmallRng;
use rand::{Rng, SeedableRng};
use rand_distr::{Distribution, Exp1, Normal, StandardNormal};
use serde::{Deserialize, Serialize};

pub const Z_MAX: f64 = 6.5;
/// first-pass threshold above which a statistic is re-estimated with 4x the work
const Z_SUSPECT: f64 = 4.5;

/// one test function: name, expectation under the target, value on a state
struct TestFn {
    name: String,
    expect: f64,
    f: Box<dyn Fn(&[f64]) -> f64 + Send + Sync>,
}

/// draws[chain][k][dim] -> z-scores of all test functions
fn z_scores(draws: &[Vec<Vec<f64>>], fns: &[TestFn]) -> Vec<(String, f64, f64, f64)> {
    let c = draws.len() as f64;
    fns.iter()
        // indicator functions of rare (or near-certain) events are not approximately normal at
        // these sample sizes: only probabilities in [0.02, 0.98] are tested
        .filter(|tf| !tf.name.starts_with("P[") || (0.02..=0.98).contains(&tf.expect))
        .map(|tf| {
            let per_chain: Vec<f64> = draws.iter().map(|ch| ch.iter().map(|x| (tf.f)(x)).sum::<f64>() / ch.len() as f64).collect();
            let m = per_chain.iter().sum::<f64>() / c;
            let v = per_chain.iter().map(|x| (x - m) * (x - m)).sum::<f64>() / (c - 1.0);
            let se = (v / c).sqrt();
            let z = if se > 0.0 { (m - tf.expect) / se } else if (m - tf.expect).abs() < 1e-12 { 0.0 } else { f64::INFINITY };
            (tf.name.clone(), z, m, se)
        })
        .collect()
}

/// moments and tail probabilities of a Gaussian target
fn gauss_fns(mean: &[f64], cov: &[f64]) -> Vec<TestFn> {
    let d = mean.len();
    let mut v: Vec<TestFn> = vec![];
    for i in 0..d {
        let (mu, var) = (mean[i], cov[i * d + i]);
        let sd = var.sqrt();
        v.push(TestFn { name: format!("E[x{i}]"), expect: mu, f: Box::new(move |x| x[i]) });
        v.push(TestFn { name: format!("E[(x{i}-mu)^2]"), expect: var, f: Box::new(move |x| (x[i] - mu) * (x[i] - mu)) });
        v.push(TestFn { name: format!("P[x{i} > mu+sd]"), expect: 1.0 - phi(1.0), f: Box::new(move |x| (x[i] > mu + sd) as i32 as f64) });
        v.push(TestFn { name: format!("P[x{i} < mu-2sd]"), expect: phi(-2.0), f: Box::new(move |x| (x[i] < mu - 2.0 * sd) as i32 as f64) });
        for j in 0..i {
            let (muj, cij) = (mean[j], cov[i * d + j]);
            v.push(TestFn { name: format!("E[(x{i}-mu)(x{j}-mu)]"), expect: cij, f: Box::new(move |x| (x[i] - mu) * (x[j] - muj)) });
        }
    }
    v
}

fn gauss_exact_draw(mean: &[f64], chol: &[f64], rng: &mut Prng) -> Vec<f64> {
    let d = mean.len();
    let z: Vec<f64> = (0..d).map(|_| rng.normal()).collect();
    (0..d).map(|i| mean[i] + (0..=i).map(|k| chol[i * d + k] * z[k]).sum::<f64>()).collect()
}

// ---------------------------------------------------------------------------------------------
// configurations
// ---------------------------------------------------------------------------------------------

#[derive(Debug, Clone, Serialize, Deserialize)]
pub enum Config {
    /// MH on a correlated Gaussian; `drift` != 0 makes the proposal asymmetric (Hastings term matters)
    MhGauss { spec: Spec, f32: bool, step: R, drift: R },
    /// MH on integers: 0 Poisson(lam), 1 Binomial(n, p); asymmetric +-1 proposal with P(up) = p_up
    MhCount { kind: u8, lam: R, n: u32, p: R, p_up: R },
    /// MH with the library's Categorical as the target; cyclic asymmetric proposal
    MhCategorical { weights: Vec<R>, p_up: R, f32: bool },
    /// Gibbs on a bivariate normal with correlation rho
    GibbsBinormal { rho: R },
    /// HMC: harness Gaussian or the library's 2-D Gaussian
    /// `jitter`: the transitions are made with step(), and the public `step_size` field is given
    /// a fresh value (0.5..1.5 x nominal, independent of the state) before every transition
    Hmc {
        spec: Spec,
        library_target: bool,
        f32: bool,
        eps_rel: R,
        n_leapfrog: usize,
        #[serde(default)]
        jitter: bool,
    },
    Nuts { spec: Spec, library_target: bool, f32: bool, accept: R },
}

#[derive(Debug, Clone, Serialize, Deserialize)]
pub struct Case {
    pub config: Config,
    pub seed: u64,
}

fn cfg_strategy(which: u8) -> BoxedStrategy<Config> {
    match which {
        0 => bx((gauss_spec(5, 10.0), any::<bool>(), 0.4f64..2.5, prop_oneof![Just(0.0f64), -0.8f64..0.8]).prop_map(|(spec, f32, step, drift)| Config::MhGauss { spec, f32, step: R(step), drift: R(drift) })),
        1 => bx(prop_oneof![
            (0u8..2, 0.5f64..12.0, 2u32..30, 0.1f64..0.9, 0.25f64..0.75).prop_map(|(kind, lam, n, p, p_up)| Config::MhCount { kind, lam: R(lam), n, p: R(p), p_up: R(p_up) }),
            (proptest::collection::vec(prop_oneof![1 => Just(0.0f64), 5 => 0.05f64..1.0], 2..9), 0.3f64..0.7, any::<bool>()).prop_map(|(mut w, p_up, f32)| {
                if w.iter().filter(|x| **x > 0.0).count() < 2 {
                    w[0] = 0.5;
                    let n = w.len();
                    w[n - 1] = 0.7;
                }
                Config::MhCategorical { weights: w.into_iter().map(R).collect(), p_up: R(p_up), f32 }
            }),
        ]),
        2 => bx((-0.95f64..0.95).prop_map(|rho| Config::GibbsBinormal { rho: R(rho) })),
        3 => bx((gauss_spec(5, 10.0), proptest::bool::weighted(0.3), any::<bool>(), prop_oneof![3 => 0.3f64..1.0, 2 => 1.0f64..1.7], 2usize..12, proptest::bool::weighted(0.35)).prop_map(
            |(spec, library_target, f32, eps_rel, n_leapfrog, jitter)| Config::Hmc {
                spec,
                library_target,
                f32,
                // (jitter scales the step by 0.5..1.5: keep below the stability limit 2)
                eps_rel: R(if jitter { eps_rel.min(1.2) } else { eps_rel }),
                n_leapfrog: if jitter { n_leapfrog.min(6) } else { n_leapfrog },
                jitter,
            },
        )),
        _ => bx((gauss_spec(4, 10.0), proptest::bool::weighted(0.3), any::<bool>(), 0.6f64..0.9).prop_map(|(spec, library_target, f32, accept)| Config::Nuts { spec, library_target, f32, accept: R(accept) })),
    }
}

fn strategy(which: u8) -> BoxedStrategy<Case> {
    bx((cfg_strategy(which), any::<u64>()).prop_map(|(config, seed)| Case { config, seed }))
}

// ---------------------------------------------------------------------------------------------
// harness targets / proposals for MH
// ---------------------------------------------------------------------------------------------

#[derive(Clone)]
struct ClosedGauss<F> {
    spec: Spec,
    _p: std::marker::PhantomData<F>,
}
impl<F: Fl> Target<F, F> for ClosedGauss<F> {
    fn unnorm_logp(&self, position: &[F]) -> F {
        let x: Vec<f64> = position.iter().map(|v| v.f()).collect();
        F::of(self.spec.logp(&x))
    }
}

/// Gaussian random walk with a constant drift: q(y|x) = N(y; x + drift, step^2 I) — asymmetric
#[derive(Clone)]
struct DriftWalk<F> {
    step: f64,
    drift: f64,
    rng: SmallRng,
    _p: std::marker::PhantomData<F>,
}
impl<F: Fl> Proposal<F, F> for DriftWalk<F> {
    fn sample(&mut self, current: &[F]) -> Vec<F> {
        let n = Normal::new(0.0, self.step).unwrap();
        current.iter().map(|x| F::of(x.f() + self.drift + n.sample(&mut self.rng))).collect()
    }
    fn logp(&self, from: &[F], to: &[F]) -> F {
        let s: f64 = from.iter().zip(to).map(|(a, b)| (b.f() - a.f() - self.drift).powi(2)).sum();
        F::of(-s / (2.0 * self.step * self.step))
    }
    fn set_seed(mut self, seed: u64) -> Self {
        self.rng = SmallRng::seed_from_u64(seed);
        self
    }
}

#[derive(Clone)]
struct CountTarget {
    kind: u8,
    lam: f64,
    n: u32,
    p: f64,
}
fn ln_fact(k: i64) -> f64 {
    (1..=k).map(|v| (v as f64).ln()).sum()
}
impl CountTarget {
    fn logpmf(&self, k: i64) -> f64 {
        if k < 0 {
            return f64::NEG_INFINITY;
        }
        if self.kind == 0 {
            k as f64 * self.lam.ln() - ln_fact(k)
        } else {
            if k > self.n as i64 {
                return f64::NEG_INFINITY;
            }
            ln_fact(self.n as i64) - ln_fact(k) - ln_fact(self.n as i64 - k) + k as f64 * self.p.ln() + (self.n as i64 - k) as f64 * (1.0 - self.p).ln()
        }
    }
    fn support_max(&self) -> i64 {
        if self.kind == 0 {
            (self.lam + 12.0 * self.lam.sqrt() + 30.0) as i64
        } else {
            self.n as i64
        }
    }
}
impl Target<i32, f64> for CountTarget {
    fn unnorm_logp(&self, position: &[i32]) -> f64 {
        self.logpmf(position[0] as i64)
    }
}
#[derive(Clone)]
struct UpDown {
    p_up: f64,
    rng: SmallRng,
}
impl Proposal<i32, f64> for UpDown {
    fn sample(&mut self, current: &[i32]) -> Vec<i32> {
        vec![if self.rng.random::<f64>() < self.p_up { current[0] + 1 } else { current[0] - 1 }]
    }
    fn logp(&self, from: &[i32], to: &[i32]) -> f64 {
        match to[0] - from[0] {
            1 => self.p_up.ln(),
            -1 => (1.0 - self.p_up).ln(),
            _ => f64::NEG_INFINITY,
        }
    }
    fn set_seed(mut self, seed: u64) -> Self {
        self.rng = SmallRng::seed_from_u64(seed);
        self
    }
}
#[derive(Clone)]
struct Cyclic {
    k: usize,
    p_up: f64,
    rng: SmallRng,
}
impl<F: num_traits::Float> Proposal<usize, F> for Cyclic {
    fn sample(&mut self, current: &[usize]) -> Vec<usize> {
        vec![if self.rng.random::<f64>() < self.p_up { (current[0] + 1) % self.k } else { (current[0] + self.k - 1) % self.k }]
    }
    fn logp(&self, from: &[usize], to: &[usize]) -> F {
        // (for k = 2 both moves lead to the same state: q = 1)
        let up = (from[0] + 1) % self.k == to[0];
        let down = (from[0] + self.k - 1) % self.k == to[0];
        let p = if up && down { 1.0 } else if up { self.p_up } else if down { 1.0 - self.p_up } else { 0.0 };
        F::from(p.ln()).unwrap()
    }
    fn set_seed(mut self, seed: u64) -> Self {
        self.rng = SmallRng::seed_from_u64(seed);
        self
    }
}

#[derive(Clone)]
struct BinormalConditional {
    rho: f64,
    rng: SmallRng,
}
impl Conditional<f64> for BinormalConditional {
    fn sample(&mut self, index: usize, given: &[f64]) -> f64 {
        let other = given[1 - index];
        let n = Normal::new(self.rho * other, (1.0 - self.rho * self.rho).sqrt()).unwrap();
        n.sample(&mut self.rng)
    }
}

// ---------------------------------------------------------------------------------------------
// running one configuration: returns draws[chain][k][dim] and the test functions
// ---------------------------------------------------------------------------------------------

struct Outcome {
    draws: Vec<Vec<Vec<f64>>>,
    fns: Vec<TestFn>,
    note: String,
    accept_rate: f64,
}

fn array_to_draws<T: Copy + Into<f64>>(a: &ndarray::Array3<T>) -> Vec<Vec<Vec<f64>>> {
    let s = a.shape();
    (0..s[0]).map(|c| (0..s[1]).map(|k| (0..s[2]).map(|j| a[[c, k, j]].into()).collect()).collect()).collect()
}
fn flat_to_draws(v: &[f64], c: usize, n: usize, d: usize) -> Vec<Vec<Vec<f64>>> {
    (0..c).map(|ci| (0..n).map(|k| v[(ci * n + k) * d..(ci * n + k + 1) * d].to_vec()).collect()).collect()
}
fn move_rate(draws: &[Vec<Vec<f64>>]) -> f64 {
    let mut moves = 0.0;
    let mut tot = 0.0;
    for ch in draws {
        for w in ch.windows(2) {
            tot += 1.0;
            if w[0] != w[1] {
                moves += 1.0;
            }
        }
    }
    moves / f64::max(tot, 1.0)
}

fn gauss_parts(spec: &Spec) -> (Vec<f64>, Vec<f64>, Vec<f64>) {
    let Spec::Gauss { dim, mean, .. } = spec else { panic!("gauss spec expected") };
    let cov = spec.covariance().unwrap();
    let chol = cholesky(&cov, *dim);
    (mean.iter().map(|r| r.0).collect(), cov, chol)
}

fn mh_gauss<F: Fl + Into<f64> + ndarray::LinalgScalar + Send + num_traits::ToPrimitive>(spec: &Spec, step: f64, drift: f64, seed: u64, work: usize) -> Result<Outcome, Fail>
where
    rand_distr::StandardUniform: rand_distr::Distribution<F>,
    rand_distr::StandardNormal: rand_distr::Distribution<F>,
{
    let (mean, cov, chol) = gauss_parts(spec);
    let d = mean.len();
    let chains = 64;
    let n = 1500 * work;
    let mut rng = Prng::new(seed);
    let inits: Vec<Vec<F>> = (0..chains).map(|_| gauss_exact_draw(&mean, &chol, &mut rng).iter().map(|v| F::of(*v)).collect()).collect();
    let sd_min = spec.min_scale();
    let target = ClosedGauss::<F> { spec: spec.clone(), _p: std::marker::PhantomData };
    let scale = step * sd_min * 2.4 / (d as f64).sqrt();
    let out = if drift == 0.0 {
        let mut s = MetropolisHastings::new(target, IsotropicGaussian::<F>::new(F::of(scale)), inits).seed(seed);
        s.run(n, 0)
    } else {
        let prop = DriftWalk::<F> { step: scale, drift: drift * scale, rng: SmallRng::seed_from_u64(1), _p: std::marker::PhantomData };
        let mut s = MetropolisHastings::new(target, prop, inits).seed(seed);
        s.run(n, 0)
    }
    .map_err(|e| Fail::new("run-error", e.to_string()))?;
    let draws = array_to_draws(&out);
    Ok(Outcome { accept_rate: move_rate(&draws), draws, fns: gauss_fns(&mean, &cov), note: format!("MH gaussian dim {d}, proposal scale {scale:.3}, drift {:.3}", drift * scale) })
}

fn hmc_run<T, B>(spec: &Spec, library_target: bool, eps_rel: f64, l: usize, seed: u64, work: usize, jitter: bool) -> Result<Outcome, Fail>
where
    T: num_traits::Float + burn::tensor::ElementConversion + burn::tensor::Element + rand_distr::uniform::SampleUniform + num_traits::FromPrimitive + num_traits::FloatConst + std::fmt::Debug,
    B: AutodiffBackend,
    StandardNormal: rand::distr::Distribution<T>,
    rand_distr::StandardUniform: rand_distr::Distribution<T>,
{
    let (mean, cov, chol) = gauss_parts(spec);
    let d = mean.len();
    let chains = 64;
    let n = 300 * work;
    let mut rng = Prng::new(seed);
    let inits: Vec<Vec<T>> = (0..chains).map(|_| gauss_exact_draw(&mean, &chol, &mut rng).iter().map(|v| T::from_f64(*v).unwrap()).collect()).collect();
    // stability limit of the leapfrog integrator on a Gaussian is 2 x smallest sd
    let eps = eps_rel * spec.min_scale();
    let eps_t = T::from_f64(eps).unwrap();
    // transitions by step() with a re-assigned step size: rows of `positions` after each one
    macro_rules! jittered {
        ($s:expr) => {{
            let mut out = vec![0.0f64; chains * n * d];
            for i in 0..n {
                $s.step_size = T::from_f64(eps * (0.5 + rng.unif())).unwrap();
                $s.step();
                let p = to_vec(&$s.positions);
                for c in 0..chains {
                    out[(c * n + i) * d..(c * n + i + 1) * d].copy_from_slice(&p[c * d..(c + 1) * d]);
                }
            }
            out
        }};
    }
    let v = if library_target && d == 2 {
        let t = DiffableGaussian2D::<T>::new(
            [T::from_f64(mean[0]).unwrap(), T::from_f64(mean[1]).unwrap()],
            [[T::from_f64(cov[0]).unwrap(), T::from_f64(cov[1]).unwrap()], [T::from_f64(cov[2]).unwrap(), T::from_f64(cov[3]).unwrap()]],
        );
        let mut s = HMC::<T, B, _>::new(t, inits, eps_t, l).set_seed(seed);
        if jitter {
            jittered!(s)
        } else {
            to_vec(&s.run(n, 0))
        }
    } else {
        let mut s = HMC::<T, B, HTarget>::new(HTarget::new(spec.clone()), inits, eps_t, l).set_seed(seed);
        if jitter {
            jittered!(s)
        } else {
            to_vec(&s.run(n, 0))
        }
    };
    let draws = flat_to_draws(&v, chains, n, d);
    Ok(Outcome { accept_rate: move_rate(&draws), draws, fns: gauss_fns(&mean, &cov), note: format!("HMC gaussian dim {d}, eps {eps:.4}, L {l}, library target {}, step size re-assigned before every step(): {jitter}", library_target && d == 2) })
}

fn nuts_run<T, B>(spec: &Spec, library_target: bool, accept: f64, seed: u64, work: usize) -> Result<Outcome, Fail>
where
    T: num_traits::Float + burn::tensor::ElementConversion + burn::tensor::Element + rand_distr::uniform::SampleUniform + num_traits::FromPrimitive + num_traits::FloatConst + std::fmt::Debug + Send,
    B: AutodiffBackend + Send,
    StandardNormal: rand::distr::Distribution<T>,
    rand_distr::StandardUniform: rand_distr::Distribution<T>,
    Exp1: rand_distr::Distribution<T>,
{
    let (mean, cov, chol) = gauss_parts(spec);
    let d = mean.len();
    let chains = 48;
    let n = 120 * work;
    let warm = 100;
    let mut rng = Prng::new(seed);
    let inits: Vec<Vec<T>> = (0..chains).map(|_| gauss_exact_draw(&mean, &chol, &mut rng).iter().map(|v| T::from_f64(*v).unwrap()).collect()).collect();
    let acc = T::from_f64(accept).unwrap();
    let v = if library_target && d == 2 {
        let t = DiffableGaussian2D::<T>::new(
            [T::from_f64(mean[0]).unwrap(), T::from_f64(mean[1]).unwrap()],
            [[T::from_f64(cov[0]).unwrap(), T::from_f64(cov[1]).unwrap()], [T::from_f64(cov[2]).unwrap(), T::from_f64(cov[3]).unwrap()]],
        );
        let mut s = NUTS::<T, B, _>::new(t, inits, acc).set_seed(seed);
        to_vec(&s.run(n, warm))
    } else {
        let target = HTarget::with_budget(spec.clone(), 3_000_000 * work as i64);
        let mut s = NUTS::<T, B, HTarget>::new(target.clone(), inits, acc).set_seed(seed);
        let v = to_vec(&s.run(n, warm));
        if target.exhausted() {
            return Err(Fail::new("harness-budget", "evaluation budget exhausted"));
        }
        v
    };
    let draws = flat_to_draws(&v, chains, n, d);
    Ok(Outcome { accept_rate: move_rate(&draws), draws, fns: gauss_fns(&mean, &cov), note: format!("NUTS gaussian dim {d}, requested acceptance {accept:.2}, library target {}", library_target && d == 2) })
}

fn run_config(c: &Config, seed: u64, work: usize) -> Result<Outcome, Fail> {
    match c {
        Config::MhGauss { spec, f32, step, drift } => {
            if *f32 {
                mh_gauss::<f32>(spec, step.0, drift.0, seed, work)
            } else {
                mh_gauss::<f64>(spec, step.0, drift.0, seed, work)
            }
        }
        Config::MhCount { kind, lam, n, p, p_up } => {
            let t = CountTarget { kind: *kind, lam: lam.0, n: *n, p: p.0 };
            let chains = 64;
            let steps = 2000 * work;
            let mut rng = Prng::new(seed);
            // exact initial draws by inversion
            let kmax = t.support_max();
            let pm: Vec<f64> = (0..=kmax).map(|k| t.logpmf(k).exp()).collect();
            let tot: f64 = pm.iter().sum();
            let inits: Vec<Vec<i32>> = (0..chains)
                .map(|_| {
                    let u = rng.unif() * tot;
                    let mut acc = 0.0;
                    let mut k = 0;
                    for (i, p) in pm.iter().enumerate() {
                        acc += p;
                        if u < acc {
                            k = i;
                            break;
                        }
                    }
                    vec![k as i32]
                })
                .collect();
            let mut s = MetropolisHastings::new(t.clone(), UpDown { p_up: p_up.0, rng: SmallRng::seed_from_u64(2) }, inits).seed(seed);
            let out = s.run(steps, 0).map_err(|e| Fail::new("run-error", e.to_string()))?;
            let draws = array_to_draws(&out);
            let m1: f64 = pm.iter().enumerate().map(|(k, p)| k as f64 * p).sum::<f64>() / tot;
            let m2: f64 = pm.iter().enumerate().map(|(k, p)| (k * k) as f64 * p).sum::<f64>() / tot;
            let mode = pm.iter().enumerate().max_by(|a, b| a.1.partial_cmp(b.1).unwrap()).unwrap().0;
            let p_mode = pm[mode] / tot;
            let p0 = pm[0] / tot;
            let fns = vec![
                TestFn { name: "E[k]".into(), expect: m1, f: Box::new(|x| x[0]) },
                TestFn { name: "E[k^2]".into(), expect: m2, f: Box::new(|x| x[0] * x[0]) },
                TestFn { name: format!("P[k={mode}]"), expect: p_mode, f: Box::new(move |x| (x[0] == mode as f64) as i32 as f64) },
                TestFn { name: "P[k=0]".into(), expect: p0, f: Box::new(|x| (x[0] == 0.0) as i32 as f64) },
            ];
            Ok(Outcome { accept_rate: move_rate(&draws), draws, fns, note: format!("MH {} with asymmetric +-1 proposal (P(up)={:.2})", if *kind == 0 { "Poisson" } else { "Binomial" }, p_up.0) })
        }
        Config::MhCategorical { weights, p_up, f32 } => {
            let w: Vec<f64> = weights.iter().map(|r| r.0).collect();
            let k = w.len();
            let tot: f64 = w.iter().sum();
            let probs: Vec<f64> = w.iter().map(|x| x / tot).collect();
            let chains = 64;
            let steps = 3000 * work;
            let mut rng = Prng::new(seed);
            let inits: Vec<Vec<usize>> = (0..chains)
                .map(|_| {
                    let u = rng.unif();
                    let mut acc = 0.0;
                    let mut idx = probs.iter().rposition(|p| *p > 0.0).unwrap();
                    for (i, p) in probs.iter().enumerate() {
                        acc += p;
                        if u < acc {
                            idx = i;
                            break;
                        }
                    }
                    vec![idx]
                })
                .collect();
            let prop = Cyclic { k, p_up: p_up.0, rng: SmallRng::seed_from_u64(3) };
            let out = if *f32 {
                let mut s = MetropolisHastings::<usize, f32, _, _>::new(Categorical::<f32>::new(w.iter().map(|x| *x as f32).collect()), prop, inits).seed(seed);
                s.run(steps, 0).map(|a| a.mapv(|v| v as f64))
            } else {
                let mut s = MetropolisHastings::<usize, f64, _, _>::new(Categorical::<f64>::new(w.clone()), prop, inits).seed(seed);
                s.run(steps, 0).map(|a| a.mapv(|v| v as f64))
            }
            .map_err(|e| Fail::new("run-error", e.to_string()))?;
            let draws = array_to_draws(&out);
            let fns = (0..k)
                .map(|i| TestFn { name: format!("P[state={i}]"), expect: probs[i], f: Box::new(move |x| (x[0] == i as f64) as i32 as f64) })
                .collect();
            Ok(Outcome { accept_rate: move_rate(&draws), draws, fns, note: format!("MH on Categorical({k} categories) with cyclic asymmetric proposal") })
        }
        Config::GibbsBinormal { rho } => {
            let chains = 64;
            let steps = 1500 * work;
            let mut rng = Prng::new(seed);
            let r = rho.0;
            let inits: Vec<Vec<f64>> = (0..chains)
                .map(|_| {
                    let a = rng.normal();
                    vec![a, r * a + (1.0 - r * r).sqrt() * rng.normal()]
                })
                .collect();
            let mut s = GibbsSampler::new(BinormalConditional { rho: r, rng: SmallRng::seed_from_u64(0) }, inits).set_seed(seed);
            // the library has no handle on the randomness inside a user's Conditional: give each
            // chain's conditional its own stream through the public fields
            for (i, ch) in s.chains.iter_mut().enumerate() {
                ch.target.rng = SmallRng::seed_from_u64(seed.wrapping_mul(31).wrapping_add(i as u64));
            }
            let out = s.run(steps, 0).map_err(|e| Fail::new("run-error", e.to_string()))?;
            let draws = array_to_draws(&out);
            let fns = gauss_fns(&[0.0, 0.0], &[1.0, r, r, 1.0]);
            Ok(Outcome { accept_rate: 1.0, draws, fns, note: format!("Gibbs on a bivariate normal, rho {r:.3}") })
        }
        Config::Hmc { spec, library_target, f32, eps_rel, n_leapfrog, jitter } => {
            if *f32 {
                hmc_run::<f32, B32>(spec, *library_target, eps_rel.0, *n_leapfrog, seed, work, *jitter)
            } else {
                hmc_run::<f64, B64>(spec, *library_target, eps_rel.0, *n_leapfrog, seed, work, *jitter)
            }
        }
        Config::Nuts { spec, library_target, f32, accept } => {
            if *f32 {
                nuts_run::<f32, B32>(spec, *library_target, accept.0, seed, work)
            } else {
                nuts_run::<f64, B64>(spec, *library_target, accept.0, seed, work)
            }
        }
    }
}

fn check(c: &Case, cov: &mut Cov) -> CheckResult {
    let first = match no_panic(|| run_config(&c.config, c.seed, 1)) {
        Err(m) => return Err(Fail::new("sampler-panic", format!("sampler panicked: {m}"))),
        Ok(Err(f)) if f.sig == "harness-budget" => {
            cov.class("evaluation-budget-exhausted-skip");
            return Ok(());
        }
        Ok(Err(f)) => return Err(f),
        Ok(Ok(o)) => o,
    };
    let zs = z_scores(&first.draws, &first.fns);
    let worst = zs.iter().fold(0.0f64, |m, z| m.max(z.1.abs()));
    cov.track_max("max_abs_z_first_pass", if worst.is_finite() { worst } else { 1e9 });
    // two thresholds: a statistic beyond Z_SUSPECT is looked at again with 4x the work (a real
    // bias then doubles its z), and only a re-run beyond Z_MAX with the same sign is reported
    let suspects: Vec<&(String, f64, f64, f64)> = zs.iter().filter(|z| !(z.1.abs() <= Z_SUSPECT)).collect();
    if !suspects.is_empty() {
        // confirm with 4x the work and an independent seed stream: a real bias grows as sqrt(work)
        cov.class("suspect-rerun");
        let second = match no_panic(|| run_config(&c.config, c.seed ^ 0xA5A5_5A5A_DEAD_BEEF, 4)) {
            Ok(Ok(o)) => o,
            Ok(Err(f)) if f.sig == "harness-budget" => return Ok(()),
            Ok(Err(f)) => return Err(f),
            Err(m) => return Err(Fail::new("sampler-panic", format!("sampler panicked: {m}"))),
        };
        let zs2 = z_scores(&second.draws, &second.fns);
        for s in suspects {
            let again = zs2.iter().find(|z| z.0 == s.0).unwrap();
            if !(again.1.abs() <= Z_MAX) && (again.1.signum() == s.1.signum() || !again.1.is_finite()) {
                let kind = match &c.config {
                    Config::MhGauss { drift, .. } => if drift.0 != 0.0 { "mh asymmetric-proposal" } else { "mh" },
                    Config::MhCount { .. } | Config::MhCategorical { .. } => "mh discrete",
                    Config::GibbsBinormal { .. } => "gibbs",
                    Config::Hmc { .. } => "hmc",
                    Config::Nuts { .. } => "nuts",
                };
                return Err(Fail::new(
                    format!("biased-average {kind}"),
                    format!(
                        "{}: {} estimated {:.5} +- {:.5} (z = {:.1}) and, with 4x the work and fresh seeds, {:.5} +- {:.5} (z = {:.1}); expectation under the target {:.5}; move rate {:.2}",
                        first.note,
                        s.0,
                        s.2,
                        s.3,
                        s.1,
                        again.2,
                        again.3,
                        again.1,
                        first.fns.iter().find(|f| f.name == s.0).unwrap().expect,
                        first.accept_rate
                    ),
                ));
            }
        }
        cov.class("suspect-not-confirmed");
    }
    cov.evals(first.draws.iter().map(|c| c.len() as u64).sum());
    cov.class(match &c.config {
        Config::MhGauss { drift, .. } => if drift.0 != 0.0 { "mh-gauss-asymmetric" } else { "mh-gauss-isotropic" },
        Config::MhCount { .. } => "mh-counts",
        Config::MhCategorical { .. } => "mh-categorical-target",
        Config::GibbsBinormal { .. } => "gibbs-binormal",
        Config::Hmc { .. } => "hmc",
        Config::Nuts { .. } => "nuts",
    });
    // non-trivial: informative error bars and a sampler that both moves and rejects
    let sd_rel = zs.iter().filter(|z| z.0.starts_with("E[x")).map(|z| z.3).fold(0.0f64, f64::max);
    let informative = first.accept_rate > 0.1 && (first.accept_rate < 0.99 || matches!(c.config, Config::GibbsBinormal { .. } | Config::Nuts { .. }));
    let _ = sd_rel;
    if informative {
        cov.nontrivial_u64(fingerprint(c));
    }
    cov.track_max("move_rate_max", first.accept_rate);
    Ok(())
}

pub fn run(ctx: &mut Ctx) {
    ctx.rule = "targets with closed-form moments: correlated Gaussians dim 1..5 (MH with the library's isotropic proposal and with an asymmetric drifted walk; HMC and NUTS on the harness Gaussian and on the library's 2-D Gaussian, f32 and f64), Poisson / binomial with an asymmetric +-1 proposal, the library's Categorical as an MH target with a cyclic asymmetric proposal, a bivariate normal via Gibbs; tuning in the stable range (HMC eps 0.3..1.7 x smallest sd, i.e. up to 85% of the stability limit; NUTS requested acceptance 0.6..0.9); 48-64 independent chains per configuration started from exact draws of the target; non-trivial = move rate in (0.1, 0.99) (Gibbs/NUTS: always); distinct by configuration fingerprint".into();
    ctx.assume("statistical: between-chain standard error (valid whatever the autocorrelation); a statistic with |z| > 4.5 is re-estimated with 4x the work and fresh seeds and reported only if that re-run has |z| > 6.5 with the same sign; biases below a few percent of a posterior sd are below the noise floor and not detectable");
    ctx.assume("'for all seeds/targets' is sampled, not decided");
    let t = ctx.tier;
    ctx.section("mh-gauss", "MH on Gaussians: means, variances, covariances, two tail probabilities per coordinate", t.pick(96, 3_000), 16, || strategy(0), check);
    ctx.section("mh-discrete", "MH on Poisson / binomial / Categorical with asymmetric proposals: first two moments and pmf cells", t.pick(96, 3_000), 16, || strategy(1), check);
    ctx.section("gibbs", "Gibbs on bivariate normals", t.pick(64, 2_000), 16, || strategy(2), check);
    ctx.section("hmc", "HMC on Gaussians incl. tunings with substantial rejection rates", t.pick(96, 3_000), 16, || strategy(3), check);
    ctx.section("nuts", "NUTS with warm-up on Gaussians", t.pick(48, 1_500), 16, || strategy(4), check);
}

//! C04 — NUTS step size: Nesterov dual averaging during warm-up, frozen afterwards; positive and
//! finite throughout; realised acceptance statistic close to the requested one.

use super::common::*;
use super::targets::{bounded_spec, gauss_spec, smooth_spec, HTarget, Spec};
use crate::engine::num::{Prng, R};
use crate::engine::{bx, fingerprint, no_panic, CheckResult, Cov, Ctx, Fail};
use crate::ensure;
use crate::refs::nuts as rn;
use burn::tensor::backend::AutodiffBackend;
use mini_mcmc::nuts::NUTSChain;
use mini_mcmc::verif;
use proptest::prelude::*;
use rand::rngs::SmallRng;
use rand::{Rng, SeedableRng};
use rand_distr::{Exp1, StandardNormal};
use serde::{Deserialize, Serialize};

#[derive(Debug, Clone, Serialize, Deserialize)]
pub struct Case {
    pub spec: Spec,
    pub f32: bool,
    pub accept: R,
    pub seed: u64,
    /// (n_collect, n_discard) per run call
    pub runs: Vec<(usize, usize)>,
    pub data_seed: u64,
}

fn runs_strategy(max_warm: usize) -> impl Strategy<Value = Vec<(usize, usize)>> {
    let nc = prop_oneof![2 => Just(1usize), 5 => 2usize..12, 1 => 12usize..30];
    let nd = prop_oneof![2 => Just(0usize), 4 => 1usize..25, 3 => 25usize..80, 1 => 80usize..=max_warm];
    proptest::collection::vec((nc, nd), 1..=4)
}

fn strategy(max_warm: usize) -> BoxedStrategy<Case> {
    // warm-up decides the step size itself, and the library has no tree-depth cap: keep to targets
    // whose adapted trajectories stay short (Gaussians with cond <= 20, Student-t, quartic; low-dim
    // bounded-support targets for the finiteness invariant)
    // ... and Gaussians whose length scale (hence adapted step size) lies far below machine
    // epsilon: a step size is a positive number, not a number of order one
    let tiny = (gauss_spec(3, 5.0), 8.0f64..17.0).prop_map(|(g, e)| match g {
        Spec::Gauss { dim, mean, prec } => {
            let s = 10f64.powf(-e);
            Spec::Gauss {
                dim,
                mean: mean.iter().map(|m| R(m.0 * s)).collect(),
                prec: prec.iter().map(|p| R(p.0 / (s * s))).collect(),
            }
        }
        other => other,
    });
    let spec = prop_oneof![10 => gauss_spec(5, 20.0), 6 => smooth_spec(6, 50.0), 4 => bounded_spec(), 2 => tiny];
    bx((spec, proptest::bool::weighted(0.3), prop_oneof![4 => 0.5f64..0.9, 1 => 0.9f64..0.99], super::c18::seed_strategy(), runs_strategy(max_warm), any::<u64>(), any::<bool>()).prop_map(
        |(spec, f32, accept, seed, mut runs, data_seed, probe_first)| {
            if probe_first {
                // run(1,0) performs no transition: exposes eps0 of the doubling/halving heuristic
                runs.insert(0, (1, 0));
                runs.truncate(4);
            }
            Case {
                spec,
                f32,
                accept: R(accept),
                seed,
                runs,
                data_seed,
            }
        },
    ))
}

/// evaluation budget (leapfrog steps) per case
fn budget() -> i64 {
    std::env::var("VERIF_NUTS_BUDGET").ok().and_then(|v| v.parse().ok()).unwrap_or(20_000)
}

fn close(a: f64, b: f64, rtol: f64) -> bool {
    (a - b).abs() <= rtol * a.abs().max(b.abs()) + 1e-300
}

fn generic<T, B>(c: &Case, cov: &mut Cov, rtol: f64) -> CheckResult
where
    T: num_traits::Float + burn::tensor::ElementConversion + burn::tensor::Element + rand_distr::uniform::SampleUniform + num_traits::FromPrimitive,
    B: AutodiffBackend,
    StandardNormal: rand::distr::Distribution<T>,
    rand_distr::StandardUniform: rand_distr::Distribution<T>,
    Exp1: rand_distr::Distribution<T>,
{
    let f = |x: T| num_traits::ToPrimitive::to_f64(&x).unwrap();
    let mut rng = Prng::new(c.data_seed);
    let start = c.spec.interior_point(&mut rng);
    let start_t: Vec<T> = start.iter().map(|v| T::from_f64(*v).unwrap()).collect();
    let start_r: Vec<f64> = start_t.iter().map(|v| f(*v)).collect();
    let delta = f(T::from_f64(c.accept.0).unwrap());
    let target = HTarget::with_budget(c.spec.clone(), budget());
    let mut chain = NUTSChain::<T, B, HTarget>::new(target.clone(), start_t, T::from_f64(c.accept.0).unwrap()).set_seed(c.seed);
    let mut eps0: Option<f64> = None;
    let mut m_model = 0usize;
    let mut warm = 0usize;
    let mut post = 0usize;
    let mut frozen: Option<f64> = None;
    let mut prev: Option<verif::NutsStepRecord> = None;
    for (ri, (n_collect, n_discard)) in c.runs.iter().enumerate() {
        let reopened = *n_discard > m_model && frozen.is_some();
        let eps_at_run_start: Option<f64> = prev.as_ref().map(|p| p.epsilon_after);
        verif::nuts_trace_start();
        let r = no_panic(|| chain.run(*n_collect, *n_discard));
        let tr = verif::nuts_trace_take();
        r.map_err(|m| Fail::new("nuts-panic", format!("NUTSChain::run({n_collect},{n_discard}) panicked: {m}")))?;
        if target.exhausted() {
            // from some transition of this run on the target was all-NaN (budget): nothing of this
            // run or of later ones is evidence about the property
            cov.class("evaluation-budget-exhausted(rest-of-history-skipped)");
            break;
        }
        let (_, eps_now, _, _, mu_now, _) = chain.verif_state();
        if ri == 0 {
            // eps0: the step size in force before the first transition
            let e0 = if tr.is_empty() { f(eps_now) } else { tr[0].epsilon };
            ensure!(e0 > 0.0 && e0.is_finite(), "stepsize-initial-not-finite", "initial step size {e0}");
            eps0 = Some(e0);
            // independent implementation of the heuristic, fed the momentum the chain drew
            // (half-line / box give -inf with a finite gradient outside the support: there the
            // library's back-off loop, which needs BOTH to be non-finite, differs from the cited
            // Python variant, and the statement does not say which is meant)
            if !matches!(c.spec, Spec::HalfLine { .. } | Spec::BoxGauss { .. }) {
                let mut r0 = SmallRng::seed_from_u64(c.seed);
                let p0: Vec<f64> = (&mut r0).sample_iter(StandardNormal).take(start_r.len()).map(|v: T| f(v)).collect();
                // (magnitudes within 1e8 of the backend's largest number may overflow inside the
                // target's own intermediate products)
                let range = if rtol > 1e-6 { f32::MAX as f64 * 1e-8 } else { f64::MAX * 1e-8 };
                let (ea, ma, nonfinite_a) = rn::find_reasonable_epsilon(&c.spec, &start_r, &p0, false, range);
                let (eb, mb, nonfinite_b) = rn::find_reasonable_epsilon(&c.spec, &start_r, &p0, true, range);
                // a trial step that overflows the backend's arithmetic yields NaN energies there,
                // on which neither variant is defined
                let overflowed = nonfinite_b && {
                    let (_, _, nf64) = rn::find_reasonable_epsilon(&c.spec, &start_r, &p0, true, f64::INFINITY);
                    !nf64
                };
                let mtol = if rtol > 1e-6 { 1e-3 } else { 1e-9 };
                if ma.min(mb) < mtol {
                    cov.class("eps0-ambiguous");
                } else if overflowed {
                    cov.class("eps0-trial-step-overflows-backend-range(skip)");
                } else {
                    if nonfinite_a {
                        cov.class("eps0-first-step-out-of-support");
                    }
                    // Algorithm 4 as printed does not say what to do when a trial step leaves the
                    // support (non-finite energy change): there only the back-off variant of the
                    // cited implementation defines a "reasonable" step size
                    ensure!(
                        (!nonfinite_a && close(e0, ea, 1e-6)) || close(e0, eb, 1e-6),
                        "stepsize-eps0-heuristic",
                        "initial step size {e0} for {} at {:?} (momentum {:?}); doubling/halving heuristic gives {ea} (Algorithm 4) / {eb} (variant of the cited Python implementation)",
                        c.spec.name(),
                        start_r,
                        p0
                    );
                    cov.class("eps0-checked");
                }
            }
        }
        let e0 = eps0.unwrap();
        // shrinkage point of this run
        let mu_first = (10.0 * e0).ln();
        for (k, rec) in tr.iter().enumerate() {
            m_model += 1;
            ensure!(rec.m == m_model, "stepsize-counter", "transition counter is {} at the {}-th transition since construction", rec.m, m_model);
            ensure!(rec.n_discard == *n_discard, "stepsize-counter", "warm-up horizon {} in a run with n_discard {}", rec.n_discard, n_discard);
            // continuity: the step size used is the one the previous transition left
            if let Some(p) = &prev {
                ensure!(
                    rec.epsilon.to_bits() == p.epsilon_after.to_bits(),
                    "stepsize-continuity",
                    "run {ri} transition {k}: used step size {} but the previous transition left {}",
                    rec.epsilon,
                    p.epsilon_after
                );
            }
            for (name, v) in [("epsilon", rec.epsilon_after), ("epsilon_bar", rec.epsilon_bar_after), ("epsilon (used)", rec.epsilon)] {
                // (once the harness's evaluation budget is used up the target is all-NaN, i.e. no
                // longer a proper density: the invariant is only claimed before that point)
                ensure!(
                    v > 0.0 && v.is_finite(),
                    "stepsize-not-positive-finite",
                    "run {ri} transition {k} (m={}): {name} = {v} ({}, alpha {} / {})",
                    rec.m,
                    c.spec.name(),
                    rec.alpha,
                    rec.n_alpha
                );
            }
            let adapting = rec.m <= *n_discard;
            let a = rec.alpha / rec.n_alpha as f64;
            // one-step-ahead reference from the previous (traced) state
            let (hb_prev, eb_prev) = match &prev {
                Some(p) => (p.h_bar_after, p.epsilon_bar_after),
                None => (0.0, 1.0),
            };
            if adapting {
                let mut ok = false;
                let mut want = (0.0, 0.0, 0.0);
                // statement silent on the shrinkage point when a later run re-opens warm-up
                let mus: Vec<f64> = vec![mu_first, (10.0 * eps_at_run_start.unwrap_or(e0)).ln()];
                for mu in mus {
                    let mut da = rn::DualAvg {
                        mu,
                        h_bar: hb_prev,
                        eps: rec.epsilon,
                        eps_bar: eb_prev,
                    };
                    da.update(rec.m, a, delta, true);
                    want = (da.eps, da.eps_bar, da.h_bar);
                    if close(rec.epsilon_after, da.eps, rtol * (1.0 + (rec.m as f64).sqrt() / rn::GAMMA * da.h_bar.abs()))
                        && close(rec.epsilon_bar_after, da.eps_bar, rtol * (1.0 + da.eps_bar.ln().abs()))
                        && (rec.h_bar_after - da.h_bar).abs() <= rtol * (1.0 + da.h_bar.abs())
                    {
                        ok = true;
                        break;
                    }
                }
                if ri == 0 {
                    // first run: the shrinkage point must be ln(10 eps0)
                    ensure!(close(f(mu_now), mu_first, rtol.max(1e-12) * 10.0) || tr.is_empty(), "stepsize-mu", "shrinkage point {} instead of ln(10 eps0) = {mu_first}", f(mu_now));
                }
                if !ok {
                    return Err(Fail::new(
                        "stepsize-dual-averaging",
                        format!(
                            "run {ri} transition {k} (m={}, warm-up {}): after acceptance statistic {a} (target {delta}) the chain has eps={} eps_bar={} h_bar={}, dual averaging (gamma .05, t0 10, kappa .75, mu ln(10 eps0)={mu_first}) from h_bar={hb_prev}, eps_bar={eb_prev} gives eps={} eps_bar={} h_bar={}",
                            rec.m, n_discard, rec.epsilon_after, rec.epsilon_bar_after, rec.h_bar_after, want.0, want.1, want.2
                        ),
                    ));
                }
                warm += 1;
                frozen = None;
            } else {
                // after warm-up: eps is the averaged iterate, bitwise, and never changes again
                ensure!(
                    rec.epsilon_after.to_bits() == rec.epsilon_bar_after.to_bits(),
                    "stepsize-not-frozen-at-average",
                    "run {ri} transition {k} (m={} > warm-up {}): step size {} differs from the averaged iterate {}",
                    rec.m,
                    n_discard,
                    rec.epsilon_after,
                    rec.epsilon_bar_after
                );
                ensure!(
                    rec.epsilon_bar_after.to_bits() == eb_prev.to_bits() || prev.is_none(),
                    "stepsize-average-changed-after-warmup",
                    "run {ri} transition {k}: the averaged iterate changed from {eb_prev} to {} after warm-up",
                    rec.epsilon_bar_after
                );
                if let Some(fz) = frozen {
                    ensure!(
                        rec.epsilon_after.to_bits() == fz.to_bits(),
                        "stepsize-changed-after-warmup",
                        "run {ri} transition {k} (m={}): step size changed from {fz} to {} after warm-up",
                        rec.m,
                        rec.epsilon_after
                    );
                }
                frozen = Some(rec.epsilon_after);
                post += 1;
            }
            prev = Some(rec.clone());
            cov.evals(1);
        }
        // a run whose warm-up is already over must not touch the step size at all
        if let (Some(fz), Some(p)) = (frozen, &prev) {
            let _ = p;
            let (_, e_end, eb_end, _, _, _) = chain.verif_state();
            if !tr.is_empty() && tr.last().map(|r| r.m > *n_discard).unwrap_or(false) {
                ensure!(f(e_end).to_bits() == fz.to_bits() && f(eb_end).to_bits() == fz.to_bits(), "stepsize-changed-after-warmup", "after run {ri} the chain's step size is {} / {} instead of the frozen {fz}", f(e_end), f(eb_end));
            }
        }
        if ri >= 1 && !tr.is_empty() {
            cov.class("second-run-on-same-chain");
        }
        if reopened {
            cov.class("warm-up-reopened");
        }
    }
    cov.class(if c.f32 { "f32" } else { "f64" });
    cov.class(c.spec.name());
    if warm >= 20 && post >= 5 {
        cov.nontrivial_u64(fingerprint(c));
    }
    Ok(())
}

fn check(c: &Case, cov: &mut Cov) -> CheckResult {
    if c.f32 {
        generic::<f32, B32>(c, cov, 3e-4)
    } else {
        generic::<f64, B64>(c, cov, 1e-9)
    }
}

// ---------------------------------------------------------------------------------------------
// realised acceptance statistic after warm-up on well-conditioned Gaussians
// ---------------------------------------------------------------------------------------------

#[derive(Debug, Clone, Serialize, Deserialize)]
pub struct StatCase {
    pub spec: Spec,
    pub accept: R,
    pub seed: u64,
    pub warmup: usize,
    pub data_seed: u64,
}

fn stat_strategy() -> BoxedStrategy<StatCase> {
    bx((gauss_spec(5, 10.0), 0.55f64..0.95, any::<u64>(), 400usize..1000, any::<u64>()).prop_map(|(spec, accept, seed, warmup, data_seed)| StatCase {
        spec,
        accept: R(accept),
        seed,
        warmup,
        data_seed,
    }))
}

pub const ACCEPT_BOUND: f64 = 0.25;

fn check_stat(c: &StatCase, cov: &mut Cov) -> CheckResult {
    let mut rng = Prng::new(c.data_seed);
    let start = c.spec.interior_point(&mut rng);
    let target = HTarget::with_budget(c.spec.clone(), 25 * budget());
    let mut chain = NUTSChain::<f64, B64, HTarget>::new(target.clone(), start, c.accept.0).set_seed(c.seed);
    let n_after = 600;
    verif::nuts_trace_start();
    let r = no_panic(|| chain.run(n_after, c.warmup));
    let tr = verif::nuts_trace_take();
    r.map_err(|m| Fail::new("nuts-panic", format!("run panicked: {m}")))?;
    if target.exhausted() {
        cov.class("evaluation-budget-exhausted-skip");
        return Ok(());
    }
    let post: Vec<f64> = tr.iter().filter(|r| r.m > c.warmup).map(|r| r.alpha / r.n_alpha as f64).collect();
    ensure!(post.len() >= n_after - 2, "stepsize-counter", "{} post-warm-up transitions for n_collect {n_after}", post.len());
    let mean = post.iter().sum::<f64>() / post.len() as f64;
    cov.track_max("abs_accept_deficit", (mean - c.accept.0).abs());
    ensure!(
        (mean - c.accept.0).abs() <= ACCEPT_BOUND,
        "stepsize-acceptance-not-near-target",
        "mean acceptance statistic after {} warm-up transitions is {mean:.3}, requested {:.3} (Gaussian dim {}, step size {})",
        c.warmup,
        c.accept.0,
        c.spec.dim(),
        tr.last().map(|r| r.epsilon_after).unwrap_or(f64::NAN)
    );
    cov.evals(tr.len() as u64);
    cov.nontrivial_u64(fingerprint(c));
    Ok(())
}

pub fn run(ctx: &mut Ctx) {
    ctx.rule = "histories: a fresh NUTSChain then 1..4 run(n_collect, n_discard) calls (n_discard 0..2000 size-biased small, sometimes a leading run(1,0) that exposes eps0), requested acceptance in (0.5,0.99), proper targets (Gaussians, Rosenbrock, Student-t, quartic, funnel) plus bounded-support / NaN-region targets for the finiteness invariant, f32 and f64; non-trivial = >= 20 warm-up transitions and >= 5 post-warm-up ones; distinct by case fingerprint".into();
    ctx.assume("one-step-ahead oracle: each transition's (eps, eps_bar, h_bar) is predicted from the previous traced state and the acceptance statistic the transition itself reported; this checks the recurrence at every step without accumulating f32 drift");
    ctx.assume("when a later run re-opens warm-up the statement does not fix the shrinkage point: ln(10 eps0) and ln(10 x current step size) are both accepted");
    ctx.assume("eps0 may follow Algorithm 4 of the paper or the variant of the cited Python implementation; cases whose acceptance probability is within 1e-9 (f64) / 1e-3 (f32) of a threshold are ambiguous");
    let t = ctx.tier;
    let max_warm = if t == crate::engine::Tier::Quick { 600 } else { 2000 };
    ctx.section("dual-averaging", "every transition of every run vs the dual-averaging recurrence; freeze at the averaged iterate, bitwise constant afterwards and across runs; positivity/finiteness; eps0 heuristic", t.pick(2_000, 60_000), 16, move || strategy(max_warm), check);
    ctx.section("acceptance-calibration", "Gaussians cond <= 10, dim 1..5, warm-up 400..1000 then 600 transitions: |mean acceptance statistic - requested| <= 0.25 (calibrated: observed maxima in evidence)", t.pick(96, 2_000), 16, stat_strategy, check_stat);
}

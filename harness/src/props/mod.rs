//! One module per property: generator + oracle + non-triviality rule.
use crate::engine::Ctx;

pub mod c01;
pub mod c02;
pub mod c03;
pub mod c04;
pub mod c05;
pub mod c06;
pub mod c07;
pub mod c08;
pub mod c09;
pub mod c10;
pub mod c11;
pub mod c12;
pub mod c13;
pub mod c14;
pub mod c15;
pub mod c16;
pub mod c17;
pub mod c18;
pub mod common;
pub mod fuzzapi;
pub mod statgen;
pub mod targets;

pub fn run(id: &str, ctx: &mut Ctx) -> bool {
    match id {
        "C01" => c01::run(ctx),
        "C02" => c02::run(ctx),
        "C03" => c03::run(ctx),
        "C04" => c04::run(ctx),
        "C05" => c05::run(ctx),
        "C06" => c06::run(ctx),
        "C07" => c07::run(ctx),
        "C08" => c08::run(ctx),
        "C09" => c09::run(ctx),
        "C10" => c10::run(ctx),
        "C11" => c11::run(ctx),
        "C12" => c12::run(ctx),
        "C13" => c13::run(ctx),
        "C14" => c14::run(ctx),
        "C15" => c15::run(ctx),
        "C16" => c16::run(ctx),
        "C17" => c17::run(ctx),
        "C18" => c18::run(ctx),
        _ => return false,
    }
    true
}

/// Entry point of watchdog-supervised child processes.
pub fn child_main(_args: &[String]) -> i32 {
    2
}

/// micro-benchmark of the building blocks (not a check): `mcmc-verif BENCH`
pub fn bench() {
    use crate::props::common::*;
    use crate::props::targets::*;
    use crate::engine::num::R;
    use mini_mcmc::nuts::NUTSChain;
    use mini_mcmc::hmc::HMC;
    use std::time::Instant;
    let spec = Spec::Gauss { dim: 2, mean: vec![R(0.0), R(0.0)], prec: vec![R(1.0), R(0.0), R(0.0), R(1.0)] };
    for f64b in [true, false] {
        let t0 = Instant::now();
        mini_mcmc::verif::nuts_trace_start();
        if f64b {
            let mut ch = NUTSChain::<f64, B64, HTarget>::new(HTarget::new(spec.clone()), vec![0.5, -0.5], 0.8).set_seed(1);
            let _ = ch.run(200, 100);
        } else {
            let mut ch = NUTSChain::<f32, B32, HTarget>::new(HTarget::new(spec.clone()), vec![0.5, -0.5], 0.8).set_seed(1);
            let _ = ch.run(200, 100);
        }
        let tr = mini_mcmc::verif::nuts_trace_take();
        let leaps: usize = tr.iter().map(|r| r.doublings.iter().map(|d| d.n_alpha).sum::<usize>()).sum();
        let el = t0.elapsed().as_secs_f64();
        println!("NUTS f64={f64b}: {} transitions, {leaps} leapfrogs, {:.3}s => {:.1} us/leapfrog, {:.2} ms/transition", tr.len(), el, el * 1e6 / leaps as f64, el * 1e3 / tr.len() as f64);
    }
    for chains in [1usize, 16, 64] {
        let t0 = Instant::now();
        let mut s = HMC::<f64, B64, HTarget>::new(HTarget::new(spec.clone()), vec![vec![0.1, 0.2]; chains], 0.2, 10).set_seed(3);
        let _ = s.run(100, 0);
        let el = t0.elapsed().as_secs_f64();
        println!("HMC {chains} chains: 100 steps x 10 leapfrogs {:.3}s => {:.1} us/leapfrog(batch)", el, el * 1e6 / 1000.0);
    }
}

pub fn bench2() {
    use crate::props::common::*;
    use crate::props::targets::*;
    use crate::engine::num::R;
    use burn::prelude::*;
    let x = [-0.15552001009253283f64, 0.7, -1.3];
    for spec in [
        Spec::StudentT { dim: 3, nu: R(3.3), scale: R(0.7) },
        Spec::Quartic { dim: 3, c: R(0.9) },
        Spec::Funnel,
        Spec::Rosen2D { a: R(1.1), b: R(37.0) },
    ] {
        let d = spec.dim();
        let t = HTarget::new(spec.clone());
        let pos = tensor2::<B64>(&x[..d], 1, d).require_grad();
        let lp = t.batch(pos.clone());
        let g = to_vec(&Tensor::<B64, 2>::from_inner(pos.grad(&lp.backward()).unwrap()));
        println!("{} logp lib {:e} ref {:e}; grad lib {:?} ref {:?}", spec.name(), to_vec(&lp)[0], spec.logp(&x[..d]), g, spec.grad(&x[..d]));
    }
}

pub fn bench3() {
    use crate::props::common::*;
    use crate::props::targets::*;
    use crate::engine::num::R;
    use burn::prelude::*;
    let spec = Spec::StudentT { dim: 1, nu: R(1.0), scale: R(0.3) };
    let t = HTarget::new(spec.clone());
    for x in [0.058722443878650665f64, 0.05868937075138092, 0.5, 0.001] {
        let pos = tensor2::<B32>(&[x], 1, 1).require_grad();
        let lp = t.batch(pos.clone());
        let g = to_vec(&Tensor::<B32, 2>::from_inner(pos.grad(&lp.backward()).unwrap()));
        // same with 32 rows
        let xs = vec![x; 32];
        let pos2 = tensor2::<B32>(&xs, 32, 1).require_grad();
        let lp2 = t.batch(pos2.clone());
        let g2 = to_vec(&Tensor::<B32, 2>::from_inner(pos2.grad(&lp2.backward()).unwrap()));
        println!("x={x}: lib grad {:?} (batch32 row0 {:?}) ref {:?}; logp lib {} ref {}", g, g2[0], spec.grad(&[x]), to_vec(&lp)[0], spec.logp(&[x]));
    }
}

pub fn bench4() {
    use crate::props::common::*;
    use crate::props::targets::*;
    use crate::engine::num::{Prng, R};
    use burn::prelude::*;
    let mut rng = Prng::new(7);
    for spec in [Spec::Rosen2D { a: R(1.1), b: R(100.0) }, Spec::Quartic { dim: 1, c: R(1.3) }, Spec::Gauss { dim: 2, mean: vec![R(0.3), R(-1.0)], prec: vec![R(2.0), R(0.5), R(0.5), R(1.0)] }] {
        let d = spec.dim();
        let n = 16;
        let xs: Vec<f64> = (0..n * d).map(|_| ((1.5 * rng.normal()) as f32) as f64).collect();
        let t = HTarget::new(spec.clone());
        let pos = tensor2::<B32>(&xs, n, d).require_grad();
        let lp = t.batch(pos.clone());
        let g = to_vec(&Tensor::<B32, 2>::from_inner(pos.grad(&lp.backward()).unwrap()));
        let lpv = to_vec(&lp);
        let mut worst_g = 0.0f64;
        let mut worst_l = 0.0f64;
        for r in 0..n {
            let x = &xs[r * d..(r + 1) * d];
            let gr = spec.grad(x);
            let gmax = gr.iter().fold(0.0f64, |a, b| a.max(b.abs()));
            for k in 0..d {
                worst_g = worst_g.max((g[r * d + k] - gr[k]).abs() / gmax.max(1e-30));
            }
            worst_l = worst_l.max((lpv[r] - spec.logp(x)).abs() / spec.logp(x).abs().max(1e-30));
        }
        println!("{}: worst relative gradient error {:e}, worst relative logp error {:e}", spec.name(), worst_g, worst_l);
    }
}

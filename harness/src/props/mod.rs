//! One module per property: generator + oracle + non-triviality rule.
use crate::engine::Ctx;

pub mod c01;
pub mod c05;
pub mod c11;
pub mod c12;
pub mod c13;
pub mod c15;
pub mod c16;
pub mod c17;
pub mod c18;
pub mod common;
pub mod statgen;

pub fn run(id: &str, ctx: &mut Ctx) -> bool {
    match id {
        "C01" => c01::run(ctx),
        "C05" => c05::run(ctx),
        "C11" => c11::run(ctx),
        "C12" => c12::run(ctx),
        "C13" => c13::run(ctx),
        "C15" => c15::run(ctx),
        "C16" => c16::run(ctx),
        "C17" => c17::run(ctx),
        "C18" => c18::run(ctx),
        _ => return false,
    }
    true
}

/// Entry point of watchdog-supervised child processes.
pub fn child_main(_args: &[String]) -> i32 {
    2
}

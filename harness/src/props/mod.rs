//! One module per property: generator + oracle + non-triviality rule.
use crate::engine::Ctx;

pub mod c16;

pub fn run(id: &str, ctx: &mut Ctx) -> bool {
    match id {
        "C16" => c16::run(ctx),
        _ => return false,
    }
    true
}

/// Entry point of watchdog-supervised child processes.
pub fn child_main(_args: &[String]) -> i32 {
    2
}

//! C01 — one Metropolis–Hastings step obeys the acceptance rule; detailed balance on finite
//! state spaces.

use super::common::Fl;
use crate::engine::num::R;
use crate::engine::{bx, fingerprint, no_panic, CheckResult, Cov, Ctx, Fail};
use crate::ensure;
use mini_mcmc::core::MarkovChain;
use mini_mcmc::distributions::{Gaussian2D, IsotropicGaussian, Proposal, Target};
use mini_mcmc::metropolis_hastings::MHMarkovChain;
use ndarray::{arr1, arr2};
use proptest::prelude::*;
use serde::{Deserialize, Serialize};
use std::marker::PhantomData;

// ---------------------------------------------------------------------------------------------
// state element types
// ---------------------------------------------------------------------------------------------

pub trait St: Clone + PartialEq + num_traits::Zero + std::fmt::Debug + Send + Sync + 'static {
    fn of(x: f64) -> Self;
    fn bits(&self) -> u64;
}
impl St for f32 {
    fn of(x: f64) -> Self {
        x as f32
    }
    fn bits(&self) -> u64 {
        self.to_bits() as u64
    }
}
impl St for f64 {
    fn of(x: f64) -> Self {
        x
    }
    fn bits(&self) -> u64 {
        self.to_bits()
    }
}
impl St for i32 {
    fn of(x: f64) -> Self {
        if x.is_nan() {
            0
        } else {
            x as i32
        }
    }
    fn bits(&self) -> u64 {
        *self as u32 as u64
    }
}
impl St for usize {
    fn of(x: f64) -> Self {
        if x.is_nan() {
            0
        } else {
            x.abs() as usize
        }
    }
    fn bits(&self) -> u64 {
        *self as u64
    }
}

fn same_bits<S: St>(a: &[S], b: &[S]) -> bool {
    a.len() == b.len() && a.iter().zip(b).all(|(p, q)| p.bits() == q.bits())
}

// ---------------------------------------------------------------------------------------------
// scripted target / proposal
// ---------------------------------------------------------------------------------------------

#[derive(Clone, Debug)]
struct STarget<S, F> {
    x: Vec<S>,
    lp_x: F,
    lp_y: F,
}
impl<S: St, F: Fl> Target<S, F> for STarget<S, F> {
    fn unnorm_logp(&self, position: &[S]) -> F {
        if same_bits(position, &self.x) {
            self.lp_x
        } else {
            self.lp_y
        }
    }
}

#[derive(Clone, Debug)]
struct SProposal<S, F> {
    x: Vec<S>,
    y: Vec<S>,
    q_xy: F,
    q_yx: F,
}
impl<S: St, F: Fl> Proposal<S, F> for SProposal<S, F> {
    fn sample(&mut self, _current: &[S]) -> Vec<S> {
        self.y.clone()
    }
    fn logp(&self, from: &[S], _to: &[S]) -> F {
        if same_bits(from, &self.x) {
            self.q_xy
        } else {
            self.q_yx
        }
    }
    fn set_seed(self, _seed: u64) -> Self {
        self
    }
}

#[derive(Debug, Clone, Serialize, Deserialize)]
pub struct ScriptCase {
    /// state type: 0 f32, 1 f64, 2 i32, 3 usize
    pub st: u8,
    pub f32: bool,
    pub x: Vec<R>,
    pub y: Vec<R>,
    pub lp_x: R,
    pub lp_y: R,
    pub q_xy: R,
    pub q_yx: R,
    /// 0 raw k, 1 k=0, 2 k=1, 3 k=max, 4 floor(exp(ratio)*2^p)+d, 5 exact-boundary mode
    pub usel: u8,
    pub kraw: u64,
    pub kdelta: i8,
    pub salt: u64,
}

fn logval() -> impl Strategy<Value = f64> {
    prop_oneof![
        10 => -30.0f64..30.0,
        3 => -3.0f64..3.0,
        2 => Just(0.0f64),
        1 => Just(-0.0f64),
        2 => Just(f64::NEG_INFINITY),
        1 => Just(f64::INFINITY),
        1 => Just(f64::NAN),
        1 => Just(f64::MAX / 2.0),
        1 => Just(-f64::MAX / 2.0),
        1 => Just(1e30f64),
        1 => Just(-1e30f64),
        1 => -800.0f64..-600.0,
    ]
}

fn coord() -> impl Strategy<Value = f64> {
    prop_oneof![8 => -100.0f64..100.0, 2 => (0u32..6).prop_map(|x| x as f64), 1 => Just(f64::NAN), 1 => Just(-0.0f64), 1 => Just(0.0f64), 1 => Just(f64::INFINITY)]
}

fn script_strategy() -> BoxedStrategy<ScriptCase> {
    let dims = 1usize..=4;
    bx((
        0u8..4,
        any::<bool>(),
        (dims, 1usize..=4).prop_flat_map(|(d, d2)| (proptest::collection::vec(coord(), d), proptest::collection::vec(coord(), d2))),
        (logval(), logval(), logval(), logval()),
        // make near-cancelling quadruples common: sometimes derive q_yx from the others
        proptest::option::weighted(0.25, -2.0f64..2.0),
        prop_oneof![3 => Just(0u8), 1 => Just(1u8), 1 => Just(2u8), 1 => Just(3u8), 6 => Just(4u8), 3 => Just(5u8)],
        any::<u64>(),
        -1i8..=1,
        any::<u64>(),
    )
        .prop_map(|(st, f32, (x, y), (lp_x, lp_y, q_xy, q_yx), near, usel, kraw, kdelta, salt)| {
            let q_yx = match near {
                // ratio close to `t`: q_yx = t + lp_x + q_xy - lp_y (when finite)
                Some(t) if (lp_x + q_xy - lp_y).is_finite() => t + lp_x + q_xy - lp_y,
                _ => q_yx,
            };
            ScriptCase {
                st,
                f32,
                x: x.into_iter().map(R).collect(),
                y: y.into_iter().map(R).collect(),
                lp_x: R(lp_x),
                lp_y: R(lp_y),
                q_xy: R(q_xy),
                q_yx: R(q_yx),
                usel,
                kraw,
                kdelta,
                salt,
            }
        }))
}

/// decision of the stated rule, evaluated in F with the stated grouping; `None` when another
/// association or an f64 evaluation would decide differently (ambiguous rounding)
fn decide<F: Fl>(lp_x: F, lp_y: F, q_xy: F, q_yx: F, u: F) -> (bool, bool) {
    let ln_u = u.ln();
    let ratio = (lp_y + q_yx) - (lp_x + q_xy);
    let d0 = ln_u < ratio;
    // alternative association in F
    let alt = (lp_y - lp_x) + (q_yx - q_xy);
    let d1 = ln_u < alt;
    // f64 evaluation
    let (a, b, c, d) = (lp_x.f(), lp_y.f(), q_xy.f(), q_yx.f());
    let r64 = (b + d) - (a + c);
    let d2 = u.f().ln() < r64;
    (d0, d0 == d1 && d0 == d2)
}

fn script_generic<S: St, F: Fl>(c: &ScriptCase, cov: &mut Cov) -> CheckResult
where
    rand_distr::StandardUniform: rand_distr::Distribution<F>,
{
    let x: Vec<S> = c.x.iter().map(|r| S::of(r.0)).collect();
    let mut y: Vec<S> = c.y.iter().map(|r| S::of(r.0)).collect();
    // mostly same-dimensional candidates; sometimes (salt-determined) the proposal changes the
    // dimension of the state, which the rule covers just the same ("ends at y")
    let keep_len = c.salt % 8 == 0 && y.len() != x.len();
    if !keep_len {
        y.truncate(x.len());
        while y.len() < x.len() {
            y.push(S::of(1.0));
        }
    }
    let kmax = (1u64 << F::BITS) - 1;
    let (mut lp_x, mut lp_y, mut q_xy, mut q_yx) = (F::of(c.lp_x.0), F::of(c.lp_y.0), F::of(c.q_xy.0), F::of(c.q_yx.0));
    let mut exact_boundary = false;
    let k = match c.usel {
        0 => c.kraw & kmax,
        1 => 0,
        2 => 1,
        3 => kmax,
        4 => {
            let ratio = ((lp_y + q_yx) - (lp_x + q_xy)).f();
            let kb = (ratio.exp() * F::den()).floor();
            if kb.is_finite() && kb >= 0.0 && kb <= kmax as f64 {
                (kb as i64 + c.kdelta as i64).clamp(0, kmax as i64) as u64
            } else {
                c.kraw & kmax
            }
        }
        _ => {
            // exact boundary: lp_x = q = 0 and lp_y in {ln u, next_up, next_down}: the ratio equals
            // lp_y exactly in every association
            exact_boundary = true;
            let k = (c.kraw & kmax).max(1);
            let u = F::of(k as f64 / F::den());
            let l = u.ln();
            lp_x = F::zero();
            q_xy = F::zero();
            q_yx = F::zero();
            lp_y = match c.kdelta {
                0 => l,
                1 => F::next_up_(l),
                _ => F::next_down_(l),
            };
            k
        }
    };
    // if x and y are the same point the scripted functions cannot tell them apart: make the
    // script consistent with being a function of the state
    if same_bits(&x, &y) {
        lp_y = lp_x;
        q_yx = q_xy;
    }
    let u = F::of(k as f64 / F::den());
    let target = STarget { x: x.clone(), lp_x, lp_y };
    let proposal = SProposal {
        x: x.clone(),
        y: y.clone(),
        q_xy,
        q_yx,
    };
    let mut chain: MHMarkovChain<S, F, _, _> = MHMarkovChain::new(target, proposal, x.clone());
    chain.rng = F::crafted(k, c.salt);
    let ret: Vec<S> = no_panic(|| chain.step().clone()).map_err(|m| Fail::new("mh-step-panic", format!("step panicked: {m}")))?;
    ensure!(same_bits(&ret, &chain.current_state), "return-value", "step() returned {:?} but current_state is {:?}", ret, chain.current_state);
    ensure!(same_bits(chain.current_state(), &chain.current_state), "return-value", "current_state() differs from the field");
    let at_x = same_bits(&ret, &x);
    let at_y = same_bits(&ret, &y);
    ensure!(at_x || at_y, "state-neither", "after the step the state {:?} is neither x {:?} nor y {:?}", ret, x, y);
    let (accept, decided) = decide(lp_x, lp_y, q_xy, q_yx, u);
    let ratio = (lp_y + q_yx) - (lp_x + q_xy);
    if same_bits(&x, &y) {
        cov.class("x==y");
        return Ok(());
    }
    if !decided {
        cov.ambiguous();
        return Ok(());
    }
    let want = if accept { &y } else { &x };
    if !same_bits(&ret, want) {
        let kind = if ratio.is_nan() {
            "nan-ratio"
        } else if exact_boundary {
            "exact-boundary"
        } else if k == 0 {
            "u=0"
        } else {
            "generic"
        };
        return Err(Fail::new(
            format!("acceptance-rule {kind}"),
            format!(
                "lp_x={:?} lp_y={:?} q(y|x)={:?} q(x|y)={:?}, u={:?} (ln u={:?}), ratio={:?}: rule says {}, chain went to {}",
                lp_x,
                lp_y,
                q_xy,
                q_yx,
                u,
                u.ln(),
                ratio,
                if accept { "accept (y)" } else { "reject (x)" },
                if at_y { "y" } else { "x" }
            ),
        ));
    }
    cov.class(if accept { "accept" } else { "reject" });
    if ratio.is_nan() {
        cov.class("nan-ratio");
    } else if ratio.f() == f64::NEG_INFINITY {
        cov.class("-inf-ratio");
    } else if ratio.f() == f64::INFINITY {
        cov.class("+inf-ratio");
    }
    if exact_boundary {
        cov.class("exact-boundary");
    }
    if y.len() != x.len() {
        cov.class("candidate-of-different-dimension");
    }
    if c.usel == 4 {
        cov.class("u-near-exp(ratio)");
    }
    if (ratio.is_finite() && ratio.f().abs() < 40.0 && k > 0 && k < kmax) || exact_boundary {
        cov.nontrivial_u64(fingerprint(c));
    }
    Ok(())
}

pub fn check_script(c: &ScriptCase, cov: &mut Cov) -> CheckResult {
    match (c.st, c.f32) {
        (0, true) => script_generic::<f32, f32>(c, cov),
        (0, false) => script_generic::<f32, f64>(c, cov),
        (1, true) => script_generic::<f64, f32>(c, cov),
        (1, false) => script_generic::<f64, f64>(c, cov),
        (2, true) => script_generic::<i32, f32>(c, cov),
        (2, false) => script_generic::<i32, f64>(c, cov),
        (_, true) => script_generic::<usize, f32>(c, cov),
        (_, false) => script_generic::<usize, f64>(c, cov),
    }
}

// ---------------------------------------------------------------------------------------------
// one chain object, a history of scripted steps applied through its public fields
// (current_state / target / proposal / rng are documented as user-modifiable)
// ---------------------------------------------------------------------------------------------

#[derive(Debug, Clone, Serialize, Deserialize)]
pub struct HistCase {
    pub f32: bool,
    pub steps: Vec<ScriptCase>,
    /// per step: overwrite current_state with the scripted x (true) or continue from wherever
    /// the chain is (false)
    pub reposition: Vec<bool>,
}

fn hist_strategy() -> BoxedStrategy<HistCase> {
    bx((any::<bool>(), proptest::collection::vec((script_strategy(), any::<bool>()), 2..6)).prop_map(|(f32, v)| {
        let (steps, reposition) = v.into_iter().unzip();
        HistCase { f32, steps, reposition }
    }))
}

fn hist_generic<F: Fl>(c: &HistCase, cov: &mut Cov) -> CheckResult
where
    rand_distr::StandardUniform: rand_distr::Distribution<F>,
{
    let kmax = (1u64 << F::BITS) - 1;
    let mk = |sc: &ScriptCase, x: Vec<f64>| {
        let mut y: Vec<f64> = sc.y.iter().map(|r| r.0).collect();
        y.truncate(x.len());
        while y.len() < x.len() {
            y.push(1.0);
        }
        (x, y)
    };
    let first_x: Vec<f64> = c.steps[0].x.iter().map(|r| if r.0.is_nan() { 0.5 } else { r.0 }).collect();
    let (x0, y0) = mk(&c.steps[0], first_x.clone());
    let mut chain: MHMarkovChain<f64, F, STarget<f64, F>, SProposal<f64, F>> = MHMarkovChain::new(
        STarget { x: x0.clone(), lp_x: F::zero(), lp_y: F::zero() },
        SProposal { x: x0.clone(), y: y0, q_xy: F::zero(), q_yx: F::zero() },
        x0,
    );
    let mut any_nontrivial = false;
    for (i, sc) in c.steps.iter().enumerate() {
        // the state this step starts from
        let x: Vec<f64> = if c.reposition[i] {
            let mut v: Vec<f64> = sc.x.iter().map(|r| if r.0.is_nan() { 0.25 } else { r.0 }).collect();
            v.resize(first_x.len(), 0.0);
            chain.current_state = v.clone();
            v
        } else {
            chain.current_state.clone()
        };
        let (x, y) = mk(sc, x);
        if same_bits(&x, &y) {
            continue;
        }
        let (lp_x, lp_y, q_xy, q_yx) = (F::of(sc.lp_x.0), F::of(sc.lp_y.0), F::of(sc.q_xy.0), F::of(sc.q_yx.0));
        chain.target = STarget { x: x.clone(), lp_x, lp_y };
        chain.proposal = SProposal { x: x.clone(), y: y.clone(), q_xy, q_yx };
        let k = match sc.usel {
            1 => 0,
            3 => kmax,
            4 | 5 => {
                let ratio = ((lp_y + q_yx) - (lp_x + q_xy)).f();
                let kb = (ratio.exp() * F::den()).floor();
                if kb.is_finite() && kb >= 0.0 && kb <= kmax as f64 {
                    (kb as i64 + sc.kdelta as i64).clamp(0, kmax as i64) as u64
                } else {
                    sc.kraw & kmax
                }
            }
            _ => sc.kraw & kmax,
        };
        let u = F::of(k as f64 / F::den());
        chain.rng = F::crafted(k, sc.salt);
        let ret = no_panic(|| chain.step().clone()).map_err(|m| Fail::new("mh-step-panic", format!("step panicked: {m}")))?;
        let (at_x, at_y) = (same_bits(&ret, &x), same_bits(&ret, &y));
        ensure!(at_x || at_y, "state-neither", "history step {i}: state {:?} is neither x {:?} nor y {:?}", ret, x, y);
        let (accept, decided) = decide(lp_x, lp_y, q_xy, q_yx, u);
        if !decided {
            cov.ambiguous();
            continue;
        }
        if (if accept { at_y } else { at_x }) == false {
            return Err(Fail::new(
                "acceptance-rule history",
                format!(
                    "history step {i} (state {}): lp_x={:?} lp_y={:?} q(y|x)={:?} q(x|y)={:?} u={:?}: rule says {}, chain went to {}",
                    if c.reposition[i] { "overwritten by the caller" } else { "carried over" },
                    lp_x,
                    lp_y,
                    q_xy,
                    q_yx,
                    u,
                    if accept { "accept" } else { "reject" },
                    if at_y { "y" } else { "x" }
                ),
            ));
        }
        cov.evals(1);
        cov.class(if c.reposition[i] { "repositioned-by-caller" } else { "carried-over" });
        if i > 0 {
            any_nontrivial = true;
        }
    }
    if any_nontrivial {
        cov.nontrivial_u64(fingerprint(c));
    }
    Ok(())
}

fn check_hist(c: &HistCase, cov: &mut Cov) -> CheckResult {
    if c.f32 {
        hist_generic::<f32>(c, cov)
    } else {
        hist_generic::<f64>(c, cov)
    }
}

// ---------------------------------------------------------------------------------------------
// library proposal + library target, multi-step histories
// ---------------------------------------------------------------------------------------------

#[derive(Debug, Clone, Serialize, Deserialize)]
pub struct LibCase {
    pub f32: bool,
    pub std: R,
    pub start: [R; 2],
    pub prop_seed: u64,
    /// per step: (usel, kraw, kdelta)
    pub steps: Vec<(u8, u64, i8)>,
    pub salt: u64,
}

fn lib_strategy() -> BoxedStrategy<LibCase> {
    let step = (prop_oneof![2 => Just(0u8), 1 => Just(1u8), 1 => Just(3u8), 4 => Just(4u8)], any::<u64>(), -1i8..=1);
    bx((
        any::<bool>(),
        prop_oneof![Just(1.0f64), 0.05f64..5.0],
        (-5.0f64..5.0, -5.0f64..5.0),
        any::<u64>(),
        proptest::collection::vec(step, 1..6),
        any::<u64>(),
    )
        .prop_map(|(f32, std, start, prop_seed, steps, salt)| LibCase {
            f32,
            std: R(std),
            start: [R(start.0), R(start.1)],
            prop_seed,
            steps,
            salt,
        }))
}

fn lib_generic<F: Fl + ndarray::NdFloat>(c: &LibCase, cov: &mut Cov) -> CheckResult
where
    rand_distr::StandardUniform: rand_distr::Distribution<F>,
    rand_distr::StandardNormal: rand_distr::Distribution<F>,
{
    let target = Gaussian2D::<F> {
        mean: arr1(&[F::of(0.0), F::of(1.0)]),
        cov: arr2(&[[F::of(4.0), F::of(2.0)], [F::of(2.0), F::of(3.0)]]),
    };
    let proposal = IsotropicGaussian::<F>::new(F::of(c.std.0)).set_seed(c.prop_seed);
    let mut chain: MHMarkovChain<F, F, _, _> = MHMarkovChain::new(target.clone(), proposal, vec![F::of(c.start[0].0), F::of(c.start[1].0)]);
    let kmax = (1u64 << F::BITS) - 1;
    let mut rejected_before = false;
    let mut nontrivial = false;
    for (i, (usel, kraw, kdelta)) in c.steps.iter().enumerate() {
        let x = chain.current_state.clone();
        // learn the candidate: a clone of the proposal has the same generator state
        let y = chain.proposal.clone().sample(&x);
        let lp_x = target.unnorm_logp(&x);
        let lp_y = target.unnorm_logp(&y);
        let q_xy = chain.proposal.logp(&x, &y);
        let q_yx = chain.proposal.logp(&y, &x);
        let ratio = (lp_y + q_yx) - (lp_x + q_xy);
        let k = match usel {
            0 => kraw & kmax,
            1 => 0,
            3 => kmax,
            _ => {
                let kb = (ratio.f().exp() * F::den()).floor();
                if kb.is_finite() && kb >= 0.0 && kb <= kmax as f64 {
                    (kb as i64 + *kdelta as i64).clamp(0, kmax as i64) as u64
                } else {
                    kraw & kmax
                }
            }
        };
        let u = F::of(k as f64 / F::den());
        chain.rng = F::crafted(k, c.salt.wrapping_add(i as u64));
        let ret = chain.step().clone();
        let at_x = same_bits_f(&ret, &x);
        let at_y = same_bits_f(&ret, &y);
        ensure!(at_x || at_y, "state-neither", "step {i}: state {:?} is neither the old state {:?} nor the candidate {:?}", ret, x, y);
        let (accept, decided) = decide(lp_x, lp_y, q_xy, q_yx, u);
        if !decided {
            cov.ambiguous();
        } else {
            let ok = if accept { at_y } else { at_x };
            ensure!(
                ok,
                if rejected_before { "acceptance-rule after-rejection" } else { "acceptance-rule library-proposal" },
                "step {i}: x={:?} y={:?} ratio={:?} u={:?}: rule says {}, chain is at {}",
                x,
                y,
                ratio,
                u,
                if accept { "accept" } else { "reject" },
                if at_y { "y" } else { "x" }
            );
            if rejected_before {
                cov.class("step-after-rejection");
            }
            cov.class(if accept { "accept" } else { "reject" });
            nontrivial = true;
        }
        rejected_before = at_x && !at_y;
        cov.evals(1);
    }
    if nontrivial {
        cov.nontrivial_u64(fingerprint(c));
    }
    Ok(())
}

fn same_bits_f<F: Fl>(a: &[F], b: &[F]) -> bool {
    a.len() == b.len() && a.iter().zip(b).all(|(p, q)| p.f().to_bits() == q.f().to_bits())
}

fn check_lib(c: &LibCase, cov: &mut Cov) -> CheckResult {
    if c.f32 {
        lib_generic::<f32>(c, cov)
    } else {
        lib_generic::<f64>(c, cov)
    }
}

// ---------------------------------------------------------------------------------------------
// finite kernels: exact acceptance probabilities by bisection, detailed balance, stationarity
// ---------------------------------------------------------------------------------------------

#[derive(Clone, Debug)]
struct TableTarget<F> {
    logpi: Vec<F>,
}
impl<F: Fl> Target<usize, F> for TableTarget<F> {
    fn unnorm_logp(&self, position: &[usize]) -> F {
        self.logpi[position[0]]
    }
}
#[derive(Clone, Debug)]
struct TableProposal<F> {
    logq: Vec<Vec<F>>,
    next: usize,
    _p: PhantomData<F>,
}
impl<F: Fl> Proposal<usize, F> for TableProposal<F> {
    fn sample(&mut self, _current: &[usize]) -> Vec<usize> {
        vec![self.next]
    }
    fn logp(&self, from: &[usize], to: &[usize]) -> F {
        self.logq[from[0]][to[0]]
    }
    fn set_seed(self, _seed: u64) -> Self {
        self
    }
}

#[derive(Debug, Clone, Serialize, Deserialize)]
pub struct KernelCase {
    pub f32: bool,
    pub pi: Vec<R>,
    pub q: Vec<Vec<R>>,
    pub probe_seed: u64,
}

fn kernel_strategy() -> BoxedStrategy<KernelCase> {
    let w = prop_oneof![2 => Just(0.0f64), 6 => 0.01f64..1.0, 1 => 1.0f64..20.0];
    bx((any::<bool>(), 2usize..=7, any::<u64>())
        .prop_flat_map(move |(f32, k, seed)| {
            (
                Just(f32),
                proptest::collection::vec(w.clone(), k),
                proptest::collection::vec(proptest::collection::vec(w.clone(), k), k),
                Just(seed),
            )
        })
        .prop_map(|(f32, mut pi, mut q, probe_seed)| {
            if pi.iter().all(|x| *x == 0.0) {
                pi[0] = 1.0;
            }
            let s: f64 = pi.iter().sum();
            for p in pi.iter_mut() {
                *p /= s;
            }
            for (i, row) in q.iter_mut().enumerate() {
                if row.iter().all(|x| *x == 0.0) {
                    let n = row.len();
                    row[(i + 1) % n] = 1.0;
                }
                let s: f64 = row.iter().sum();
                for p in row.iter_mut() {
                    *p /= s;
                }
            }
            KernelCase {
                f32,
                pi: pi.into_iter().map(R).collect(),
                q: q.into_iter().map(|r| r.into_iter().map(R).collect()).collect(),
                probe_seed,
            }
        }))
}

fn kernel_generic<F: Fl>(c: &KernelCase, cov: &mut Cov) -> CheckResult
where
    rand_distr::StandardUniform: rand_distr::Distribution<F>,
{
    let k = c.pi.len();
    // the distribution the library sees: log-values rounded to F
    let logpi: Vec<F> = c.pi.iter().map(|p| F::of(p.0.ln())).collect();
    let logq: Vec<Vec<F>> = c.q.iter().map(|r| r.iter().map(|p| F::of(p.0.ln())).collect()).collect();
    let pi: Vec<f64> = logpi.iter().map(|l| l.f().exp()).collect();
    let q: Vec<Vec<f64>> = logq.iter().map(|r| r.iter().map(|l| l.f().exp()).collect()).collect();
    let kmax = (1u64 << F::BITS) - 1;
    let mut rng = crate::engine::num::Prng::new(c.probe_seed);
    let mut a = vec![vec![0.0f64; k]; k];
    let target = TableTarget { logpi: logpi.clone() };
    let accepted = |x: usize, y: usize, kk: u64, salt: u64| -> Result<bool, Fail> {
        let proposal = TableProposal {
            logq: logq.clone(),
            next: y,
            _p: PhantomData,
        };
        let mut chain: MHMarkovChain<usize, F, _, _> = MHMarkovChain::new(target.clone(), proposal, vec![x]);
        chain.rng = F::crafted(kk, salt);
        let s = chain.step().clone();
        if s.len() != 1 || (s[0] != x && s[0] != y) {
            return Err(Fail::new("state-neither", format!("finite kernel: from {x} proposing {y} ended at {:?}", s)));
        }
        Ok(s[0] == y)
    };
    let mut steps = 0u64;
    for x in 0..k {
        if !(pi[x] > 0.0) {
            continue; // the chain cannot be at a zero-probability state (C14)
        }
        for y in 0..k {
            if x == y || !(q[x][y] > 0.0) {
                continue;
            }
            // largest accepted k by bisection (acceptance must be monotone in u)
            let acc0 = accepted(x, y, 0, 1)?;
            steps += 1;
            let count = if !acc0 {
                0u64
            } else if accepted(x, y, kmax, 2)? {
                kmax + 1
            } else {
                let (mut lo, mut hi) = (0u64, kmax); // lo accepted, hi rejected
                while hi - lo > 1 {
                    let mid = lo + (hi - lo) / 2;
                    steps += 1;
                    if accepted(x, y, mid, mid)? {
                        lo = mid;
                    } else {
                        hi = mid;
                    }
                }
                lo + 1
            };
            // monotonicity probes
            for _ in 0..6 {
                let kk = rng.below(kmax + 1);
                let want = kk < count;
                steps += 1;
                ensure!(
                    accepted(x, y, kk, kk ^ 7)? == want,
                    "acceptance-not-monotone",
                    "finite kernel {x}->{y}: acceptance is not a threshold in u (threshold count {count}, probe k={kk})"
                );
            }
            let measured = count as f64 / F::den();
            a[x][y] = measured;
            let want = if pi[y] > 0.0 && q[y][x] > 0.0 {
                ((logpi[y].f() + logq[y][x].f()) - (logpi[x].f() + logq[x][y].f())).exp().min(1.0)
            } else {
                0.0
            };
            // u = 0 is the one draw whose logarithm is -inf: it is accepted by every finite ratio
            // and counts for 2^-p of the measure; the tolerance covers it and the F rounding of the
            // ratio (relative eps * |terms|)
            let terms = logpi[y].f().abs() + logq[y][x].f().abs() + logpi[x].f().abs() + logq[x][y].f().abs();
            let tol = 2.0 / F::den() + 4.0 * F::epsilon().f() * (1.0 + terms) * want.max(1e-300);
            if want == 0.0 {
                ensure!(
                    count == 0,
                    "acceptance-zero-probability-move",
                    "finite kernel: move {x}->{y} to a zero-probability / irreversible state was accepted for {count} of 2^{} draws",
                    F::BITS
                );
                cov.class("zero-probability-move");
            } else {
                cov.track_max("A_abs_dev", (measured - want).abs());
                ensure!(
                    (measured - want).abs() <= tol,
                    "acceptance-probability",
                    "finite kernel {x}->{y}: measured acceptance probability {measured} vs min(1, pi(y)Q(y,x)/pi(x)Q(x,y)) = {want} (pi={:?}, Q[x][y]={}, Q[y][x]={})",
                    pi,
                    q[x][y],
                    q[y][x]
                );
            }
        }
    }
    // detailed balance and stationarity of the measured kernel
    let mut p = vec![vec![0.0f64; k]; k];
    for x in 0..k {
        let mut stay = 1.0;
        for y in 0..k {
            if x != y {
                p[x][y] = q[x][y] * a[x][y];
                stay -= p[x][y];
            }
        }
        p[x][x] = stay;
    }
    let psum: f64 = pi.iter().sum();
    let tol = if F::BITS == 24 { 1e-5 } else { 1e-12 };
    for x in 0..k {
        for y in 0..k {
            if x < y && pi[x] > 0.0 && pi[y] > 0.0 {
                let (l, r) = (pi[x] * p[x][y], pi[y] * p[y][x]);
                ensure!((l - r).abs() <= tol * psum, "detailed-balance", "pi({x})P({x},{y}) = {l} but pi({y})P({y},{x}) = {r}");
            }
        }
    }
    for y in 0..k {
        let inflow: f64 = (0..k).filter(|x| pi[*x] > 0.0).map(|x| pi[x] * p[x][y]).sum();
        ensure!((inflow - pi[y]).abs() <= 4.0 * tol * psum, "stationarity", "(pi P)({y}) = {inflow} but pi({y}) = {}", pi[y]);
    }
    cov.evals(steps);
    let uniform_pi = pi.iter().all(|x| (x - pi[0]).abs() < 1e-9);
    let symmetric = (0..k).all(|i| (0..k).all(|j| (q[i][j] - q[j][i]).abs() < 1e-9));
    if !uniform_pi && !symmetric {
        cov.nontrivial_u64(fingerprint(c));
        cov.class("asymmetric-Q nonuniform-pi");
    }
    if pi.iter().any(|x| *x == 0.0) {
        cov.class("pi-has-zero");
    }
    Ok(())
}

pub fn check_kernel(c: &KernelCase, cov: &mut Cov) -> CheckResult {
    if c.f32 {
        kernel_generic::<f32>(c, cov)
    } else {
        kernel_generic::<f64>(c, cov)
    }
}

pub fn run(ctx: &mut Ctx) {
    ctx.rule = "scripted (log p(x), log p(y), log q(y|x), log q(x|y)) quadruples incl. +-inf/NaN/huge/near-cancelling, state types f32/f64/i32/usize (NaN and -0.0 coordinates), float types f32/f64, injected acceptance draw u = k*2^-p (0, 1 ulp, max, random, floor(exp(ratio)*2^p)+{-1,0,1}, exact boundary ln u vs its neighbours); library proposal histories of 1..5 steps; finite kernels K=2..7 with generated pi (zeros) and asymmetric Q (zeros); non-trivial = finite |ratio| < 40 with 0<u<1-ulp, exact-boundary case, or kernel with asymmetric Q and non-uniform pi; distinct by case fingerprint".into();
    ctx.assume("decision compared only when the stated grouping in F, the alternative association in F and an f64 evaluation agree (otherwise counted ambiguous; old-or-new state still checked)");
    let t = ctx.tier;
    ctx.section("scripted", "one step on scripted target/proposal with injected u: accept <=> ln u < ratio; state bitwise x or y; return value", t.pick(2_000_000, 60_000_000), 16, script_strategy, check_script);
    ctx.section("scripted-history", "one chain object driven through 2..5 scripted steps; target, proposal, generator and (sometimes) current_state are overwritten through the public fields between steps", t.pick(400_000, 12_000_000), 16, hist_strategy, check_hist);
    ctx.section("library-proposal", "IsotropicGaussian + Gaussian2D, candidate learnt from a clone of the chain's proposal, 1..5 steps incl. steps after a rejection", t.pick(200_000, 6_000_000), 16, lib_strategy, check_lib);
    ctx.section("finite-kernel", "exact acceptance probability of the real step() by bisection over the representable u; = min(1, pi(y)Q(y,x)/pi(x)Q(x,y)); detailed balance; pi P = pi", t.pick(4_000, 120_000), 16, kernel_strategy, check_kernel);
}

//! C18 — initial-position helpers: shape, purity of the seeded variants, standard-normal law.

use crate::engine::num::{phi, Prng};
use crate::engine::{bx, no_panic, CheckResult, Cov, Ctx, Fail};
use crate::ensure;
use mini_mcmc::core::{init, init_det, init_with_seed};
use proptest::prelude::*;
use serde::{Deserialize, Serialize};

#[derive(Debug, Clone, Serialize, Deserialize)]
pub struct Case {
    /// size of an ambient rayon pool the calls are (also) made in
    #[serde(default)]
    pub pool: usize,
    pub f32: bool,
    pub n: usize,
    pub d: usize,
    pub n_more: usize,
    pub seed: u64,
    pub seed2: u64,
}

pub fn seed_strategy() -> impl Strategy<Value = u64> {
    prop_oneof![
        1 => Just(0u64),
        1 => Just(1u64),
        2 => Just(42u64),
        1 => Just(43u64),
        6 => any::<u64>(),
        2 => (0u64..70).prop_map(|k| u64::MAX - k),
        1 => 0u64..1000,
    ]
}

fn dim() -> impl Strategy<Value = usize> {
    prop_oneof![1 => Just(0usize), 2 => Just(1usize), 4 => 2usize..8, 3 => 8usize..64, 1 => 64usize..=256]
}

/// number of vectors: the property's 0..256 plus, rarely, thousands (purity has no size limit)
fn count() -> impl Strategy<Value = usize> {
    prop_oneof![14 => dim(), 1 => 1000usize..5000]
}

fn strategy() -> BoxedStrategy<Case> {
    bx((any::<bool>(), count(), dim(), 1usize..40, seed_strategy(), seed_strategy(), prop_oneof![2 => Just(0usize), 3 => 1usize..=16]).prop_map(
        |(f32, n, d, n_more, seed, seed2, pool)| Case {
            pool,
            f32,
            n,
            d: if n > 256 { d.min(4) } else { d },
            n_more,
            seed,
            seed2,
        },
    ))
}

trait Fl: num_traits::Float + num_traits::FromPrimitive + std::fmt::Debug + Send + 'static {
    /// the other supported element type
    type Other: Fl;
    fn bits(self) -> u64;
    fn f(self) -> f64;
}
impl Fl for f32 {
    type Other = f64;
    fn bits(self) -> u64 {
        self.to_bits() as u64
    }
    fn f(self) -> f64 {
        self as f64
    }
}
impl Fl for f64 {
    type Other = f32;
    fn bits(self) -> u64 {
        self.to_bits()
    }
    fn f(self) -> f64 {
        self
    }
}

fn shape_ok<T: Fl>(v: &[Vec<T>], n: usize, d: usize, what: &str) -> CheckResult {
    ensure!(v.len() == n, "init-shape", "{what}({n}, {d}) returned {} vectors", v.len());
    for (i, row) in v.iter().enumerate() {
        ensure!(row.len() == d, "init-shape", "{what}({n}, {d}): vector {i} has length {}", row.len());
        for x in row {
            ensure!(x.is_finite(), "init-finite", "{what}({n}, {d}): non-finite entry {:?}", x);
        }
    }
    Ok(())
}

fn same<T: Fl>(a: &[Vec<T>], b: &[Vec<T>]) -> bool {
    a.len() == b.len() && a.iter().zip(b).all(|(x, y)| x.len() == y.len() && x.iter().zip(y).all(|(p, q)| p.bits() == q.bits()))
}

/// first position (i, j) at which three consecutive entries of the flattened `a` reappear in the
/// flattened `b` (three, because single f32 values do collide by chance in large requests)
fn shared_run<T: Fl>(a: &[Vec<T>], b: &[Vec<T>]) -> Option<(usize, usize)> {
    let fa: Vec<u64> = a.iter().flatten().map(|v| v.bits()).collect();
    let fb: Vec<u64> = b.iter().flatten().map(|v| v.bits()).collect();
    if fa.len() < 3 || fb.len() < 3 {
        return None;
    }
    let mut seen = std::collections::HashMap::new();
    for i in 0..fa.len() - 2 {
        seen.entry((fa[i], fa[i + 1], fa[i + 2])).or_insert(i);
    }
    (0..fb.len() - 2).find_map(|j| seen.get(&(fb[j], fb[j + 1], fb[j + 2])).map(|i| (*i, j)))
}

fn check_t<T: Fl>(c: &Case, cov: &mut Cov) -> CheckResult {
    let (n, d) = (c.n, c.d);
    let a: Vec<Vec<T>> = no_panic(|| init_with_seed::<T>(n, d, c.seed))
        .map_err(|m| Fail::new("init-panic", format!("init_with_seed({n},{d},{}) panicked: {m}", c.seed)))?;
    shape_ok(&a, n, d, "init_with_seed")?;
    let b: Vec<Vec<T>> = init_with_seed::<T>(n, d, c.seed);
    ensure!(same(&a, &b), "init-pure", "init_with_seed({n},{d},{}) returned different values on a second call", c.seed);
    // ... whatever was asked for in between, in particular the same request for the other
    // element type
    let other_t: Vec<Vec<T::Other>> = init_with_seed::<T::Other>(n, d, c.seed);
    shape_ok(&other_t, n, d, "init_with_seed")?;
    let b2: Vec<Vec<T>> = init_with_seed::<T>(n, d, c.seed);
    ensure!(
        same(&a, &b2),
        "init-pure history",
        "init_with_seed({n},{d},{}) returned different values after the same request was made for the other element type",
        c.seed
    );
    // init_det == init_with_seed(.., 42), and is pure
    let det: Vec<Vec<T>> = no_panic(|| init_det::<T>(n, d)).map_err(|m| Fail::new("init-panic", format!("init_det panicked: {m}")))?;
    shape_ok(&det, n, d, "init_det")?;
    let s42: Vec<Vec<T>> = init_with_seed::<T>(n, d, 42);
    ensure!(same(&det, &s42), "init-det-42", "init_det({n},{d}) differs from init_with_seed({n},{d},42)");
    ensure!(same(&det, &init_det::<T>(n, d)), "init-pure", "init_det({n},{d}) is not reproducible");
    // prefix property
    let n2 = n + c.n_more;
    let big: Vec<Vec<T>> = init_with_seed::<T>(n2, d, c.seed);
    shape_ok(&big, n2, d, "init_with_seed")?;
    ensure!(same(&big[..n], &a), "init-prefix", "rows 0..{n} of init_with_seed({n2},{d},{}) differ from init_with_seed({n},{d},..)", c.seed);
    // different seeds => different output
    if n * d >= 1 && c.seed != c.seed2 {
        let other: Vec<Vec<T>> = init_with_seed::<T>(n, d, c.seed2);
        ensure!(!same(&a, &other), "init-seed-ignored", "seeds {} and {} give identical output for ({n},{d})", c.seed, c.seed2);
        cov.class("seed-pair-differs");
    }
    // pure functions of their arguments: also when called from inside a rayon pool of any size
    // and from another thread
    if c.pool > 0 {
        let tp = rayon::ThreadPoolBuilder::new().num_threads(c.pool).build().map_err(|e| Fail::new("harness", format!("pool: {e}")))?;
        let in_pool: Vec<Vec<T>> = tp.install(|| init_with_seed::<T>(n, d, c.seed));
        ensure!(same(&a, &in_pool), "init-pure", "init_with_seed({n},{d},{}) called inside a {}-thread rayon pool differs from the call outside", c.seed, c.pool);
        let big_in_pool: Vec<Vec<T>> = tp.install(|| init_with_seed::<T>(n2, d, c.seed));
        ensure!(same(&big_in_pool[..n], &a), "init-prefix", "prefix property fails inside a {}-thread rayon pool (n {n} vs {n2}, d {d})", c.pool);
        let det_in_pool: Vec<Vec<T>> = tp.install(|| init_det::<T>(n, d));
        ensure!(same(&det, &det_in_pool), "init-pure", "init_det({n},{d}) inside a {}-thread pool differs", c.pool);
        cov.class("inside-rayon-pool");
    }
    let (tn, td, ts) = (n, d, c.seed);
    let from_thread: Vec<Vec<T>> = std::thread::spawn(move || init_with_seed::<T>(tn, td, ts)).join().map_err(|_| Fail::new("init-panic", "init_with_seed panicked in a spawned thread"))?;
    ensure!(same(&a, &from_thread), "init-pure", "init_with_seed({n},{d},{}) called on another thread differs", c.seed);
    // OS-seeded variant: independent draws also across threads
    if n * d >= 4 {
        let hs: Vec<std::thread::JoinHandle<Vec<Vec<T>>>> = (0..3).map(|_| std::thread::spawn(move || init::<T>(tn, td))).collect();
        let outs: Vec<Vec<Vec<T>>> = hs.into_iter().map(|h| h.join().unwrap()).collect();
        for i in 0..outs.len() {
            for j in i + 1..outs.len() {
                ensure!(!same(&outs[i], &outs[j]), "init-os-constant", "OS-seeded init({n},{d}) returned identical values on two different threads");
                ensure!(shared_run(&outs[i], &outs[j]).is_none(), "init-os-overlap", "OS-seeded init({n},{d}) on two different threads returned overlapping stretches of one stream");
            }
        }
        // sequentially created threads, too (a per-thread generator cloned from one source)
        let first: Vec<Vec<T>> = std::thread::spawn(move || init::<T>(tn, td)).join().unwrap();
        let second: Vec<Vec<T>> = std::thread::spawn(move || init::<T>(tn, td)).join().unwrap();
        ensure!(!same(&first, &second), "init-os-constant", "OS-seeded init({n},{d}) returned identical values on two threads created one after the other");
    }
    // OS-seeded variant: shape and finiteness
    let os: Vec<Vec<T>> = no_panic(|| init::<T>(n, d)).map_err(|m| Fail::new("init-panic", format!("init panicked: {m}")))?;
    shape_ok(&os, n, d, "init")?;
    if n * d >= 4 {
        let os2: Vec<Vec<T>> = init::<T>(n, d);
        ensure!(!same(&os, &os2), "init-os-constant", "two OS-seeded init({n},{d}) calls returned identical values");
        let os3: Vec<Vec<T>> = init::<T>(n, d);
        for (x, y, what) in [(&os, &os2, "the next call"), (&os2, &os3, "the next call"), (&os, &os3, "the call after the next")] {
            if let Some((i, j)) = shared_run(x, y) {
                return Err(Fail::new(
                    "init-os-overlap",
                    format!("OS-seeded init({n},{d}): entries {i}..{} of one call reappear as entries {j}..{} of {what} on the same thread: the calls are not independent draws", i + 3, j + 3),
                ));
            }
        }
        cov.class("successive-os-calls-compared");
    }
    if n == 0 || d == 0 {
        cov.class("zero-extent");
    }
    if c.seed > u64::MAX - 100 {
        cov.class("seed-near-max");
    }
    if n >= 2 && d >= 2 {
        cov.nontrivial(&(c.f32, n, d, c.seed));
    }
    Ok(())
}

fn check(c: &Case, cov: &mut Cov) -> CheckResult {
    if c.f32 {
        check_t::<f32>(c, cov)
    } else {
        check_t::<f64>(c, cov)
    }
}

// ---------------------------------------------------------------------------------------------

#[derive(Debug, Clone, Serialize, Deserialize)]
pub struct DistCase {
    pub f32: bool,
    pub n: usize,
    pub d: usize,
    pub seed: u64,
    pub calls: usize,
    pub os: bool,
}

fn dist_strategy() -> BoxedStrategy<DistCase> {
    bx((any::<bool>(), 100usize..=256, 100usize..=256, seed_strategy(), 6usize..10, proptest::bool::weighted(0.25)).prop_map(
        |(f32, n, d, seed, calls, os)| DistCase {
            f32,
            n,
            d,
            seed,
            calls,
            os,
        },
    ))
}

fn dist_t<T: Fl>(c: &DistCase, cov: &mut Cov) -> CheckResult {
    let mut all: Vec<f64> = Vec::new();
    let mut lag_row = (0.0f64, 0u64); // sum x[i][j]*x[i][j+1]
    let mut lag_col = (0.0f64, 0u64); // sum x[i][j]*x[i+1][j]
    let mut rng = Prng::new(c.seed);
    for k in 0..c.calls {
        let v: Vec<Vec<T>> = if c.os {
            init::<T>(c.n, c.d)
        } else {
            // distinct seeds per call, derived from the case seed (wrapping: seeds near u64::MAX)
            init_with_seed::<T>(c.n, c.d, c.seed.wrapping_add(k as u64).wrapping_add(if k > 0 { rng.next_u64() } else { 0 }))
        };
        shape_ok(&v, c.n, c.d, "init")?;
        for i in 0..c.n {
            for j in 0..c.d {
                let x = v[i][j].f();
                all.push(x);
                if j + 1 < c.d {
                    lag_row.0 += x * v[i][j + 1].f();
                    lag_row.1 += 1;
                }
                if i + 1 < c.n {
                    lag_col.0 += x * v[i + 1][j].f();
                    lag_col.1 += 1;
                }
            }
        }
    }
    let n = all.len() as f64;
    let m1 = all.iter().sum::<f64>() / n;
    let m2 = all.iter().map(|x| x * x).sum::<f64>() / n;
    let m3 = all.iter().map(|x| x * x * x).sum::<f64>() / n;
    let m4 = all.iter().map(|x| x * x * x * x).sum::<f64>() / n;
    let z = [
        ("mean", m1 * n.sqrt()),
        ("second moment", (m2 - 1.0) / (2.0 / n).sqrt()),
        ("third moment", m3 / (15.0 / n).sqrt()),
        ("fourth moment", (m4 - 3.0) / (96.0 / n).sqrt()),
        ("lag-1 correlation within rows", lag_row.0 / (lag_row.1 as f64).sqrt()),
        ("lag-1 correlation between rows", lag_col.0 / (lag_col.1 as f64).sqrt()),
    ];
    for (name, zz) in z {
        cov.track_max("abs_z", zz.abs());
        ensure!(
            zz.abs() <= 6.5,
            "init-distribution",
            "{name} of {} pooled entries deviates from N(0,1): z = {zz:.2} (os={}, n={}, d={}, seed={})",
            all.len(),
            c.os,
            c.n,
            c.d,
            c.seed
        );
    }
    // Kolmogorov–Smirnov
    all.sort_by(|a, b| a.partial_cmp(b).unwrap());
    let mut dmax = 0.0f64;
    for (i, x) in all.iter().enumerate() {
        let f = phi(*x);
        dmax = dmax.max((f - i as f64 / n).abs()).max(((i + 1) as f64 / n - f).abs());
    }
    let lambda = dmax * n.sqrt();
    cov.track_max("ks_lambda", lambda);
    ensure!(lambda <= 3.5, "init-distribution", "Kolmogorov-Smirnov distance to the standard normal: D*sqrt(N) = {lambda:.2} over {} entries", all.len());
    cov.evals(c.calls as u64);
    cov.class(if c.os { "os-seeded" } else { "seeded" });
    cov.nontrivial(&(c.f32, c.n, c.d, c.seed, c.os));
    Ok(())
}

fn dist(c: &DistCase, cov: &mut Cov) -> CheckResult {
    if c.f32 {
        dist_t::<f32>(c, cov)
    } else {
        dist_t::<f64>(c, cov)
    }
}

// ---------------------------------------------------------------------------------------------
// far tails: a generator that clips, resamples or truncates beyond a few sigma passes every
// moment / KS test; the number of entries beyond 4..6 sigma in billions of draws does not
// ---------------------------------------------------------------------------------------------

#[derive(Debug, Clone, Serialize, Deserialize)]
pub struct TailCase {
    pub seed: u64,
    /// number of init_with_seed(256, 256, .) calls (65 536 entries each)
    pub calls: u64,
    pub f32: bool,
}

fn tail_strategy(calls: u64) -> BoxedStrategy<TailCase> {
    bx((any::<u64>(), any::<bool>()).prop_map(move |(seed, f32)| TailCase { seed, calls, f32 }))
}

const TAIL_T: [f64; 5] = [4.0, 4.5, 5.0, 5.5, 6.0];
/// P(|Z| > t) for the thresholds above
const TAIL_P: [f64; 5] = [6.334248366623996e-5, 6.795346249460124e-6, 5.733031437583869e-7, 3.797912493177544e-8, 1.973175290075396e-9];

fn tail_t<T: Fl>(c: &TailCase, cov: &mut Cov) -> CheckResult {
    let workers = 16u64;
    let counts: Vec<[u64; 5]> = std::thread::scope(|sc| {
        let hs: Vec<_> = (0..workers)
            .map(|w| {
                sc.spawn(move || {
                    let mut cnt = [0u64; 5];
                    let mut k = w;
                    while k < c.calls {
                        let v: Vec<Vec<T>> = init_with_seed::<T>(256, 256, c.seed.wrapping_add(k.wrapping_mul(0x9E37_79B9_7F4A_7C15)));
                        for row in &v {
                            for x in row {
                                let a = x.f().abs();
                                if a > 4.0 {
                                    for (i, t) in TAIL_T.iter().enumerate() {
                                        if a > *t {
                                            cnt[i] += 1;
                                        }
                                    }
                                }
                            }
                        }
                        k += workers;
                    }
                    cnt
                })
            })
            .collect();
        hs.into_iter().map(|h| h.join().unwrap()).collect()
    });
    let n = c.calls as f64 * 65536.0;
    let mut tot = [0u64; 5];
    for cn in &counts {
        for i in 0..5 {
            tot[i] += cn[i];
        }
    }
    for i in 0..5 {
        let exp = n * TAIL_P[i];
        if exp < 12.0 {
            continue;
        }
        let z = (tot[i] as f64 - exp) / exp.sqrt();
        cov.track_max("tail_abs_z", z.abs());
        ensure!(
            z.abs() <= 6.5,
            "init-distribution tails",
            "{} of {n:.3e} entries have |z| > {} ; a standard normal gives {exp:.1} +- {:.1} (z = {z:.1})",
            tot[i],
            TAIL_T[i],
            exp.sqrt()
        );
        cov.class(&format!("threshold-{}-tested", TAIL_T[i]));
    }
    cov.evals(c.calls);
    cov.nontrivial(&(c.seed, c.f32));
    Ok(())
}

fn tail(c: &TailCase, cov: &mut Cov) -> CheckResult {
    if c.f32 {
        tail_t::<f32>(c, cov)
    } else {
        tail_t::<f64>(c, cov)
    }
}

pub fn run(ctx: &mut Ctx) {
    ctx.rule = "n, d in 0..256 (incl. 0), seeds from {0,1,42,random,u64::MAX-k}, f32/f64; non-trivial = n>=2 and d>=2; distribution cases pool >= 6 calls of >= 100x100 entries; distinct by (type, n, d, seed)".into();
    ctx.assume("distribution tests at |z| <= 6.5 / KS lambda <= 3.5 (p ~ 1e-10 each); the OS-seeded variant is tested at the same thresholds");
    // cases wait for helper threads; should the helpers ever need the global rayon pool, a case
    // running on that pool's only worker would deadlock: run on a plain thread, with a watchdog
    ctx.use_pool_thread = false;
    ctx.plain_pool_threads = 4;
    ctx.set_case_timeout(60.0);
    let t = ctx.tier;
    ctx.section(
        "shape-purity",
        "shape, finiteness, bitwise purity, init_det = seed 42, prefix property, different seeds differ, OS variant shape",
        t.pick(40_000, 1_200_000),
        16,
        strategy,
        check,
    );
    // quick: 2 x 1.3e9 entries (thresholds up to 5.5 sigma have power); thorough: 2 x 3.9e10 (6 sigma: 78 expected)
    let calls: u64 = if t == crate::engine::Tier::Quick { 20_000 } else { 600_000 };
    ctx.set_case_timeout(1800.0);
    ctx.max_shrink_iters = 0; // one case costs up to a minute: a failing case is reported as generated
    ctx.section(
        "tails",
        "counts of entries beyond 4, 4.5, 5, 5.5 and 6 sigma in billions of seeded draws vs the normal tail probabilities (|z| <= 6.5 where the expected count is >= 12)",
        2,
        2,
        move || tail_strategy(calls),
        tail,
    );
    ctx.max_shrink_iters = 3000;
    ctx.set_case_timeout(60.0);
    ctx.section(
        "distribution",
        "pooled entries: moments 1..4, lag-1 correlations within/between rows, KS distance to Phi",
        t.pick(200, 6_000),
        16,
        dist_strategy,
        dist,
    );
}

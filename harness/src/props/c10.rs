//! C10 — progress mode returns the same draws as run, with diagnostics computed from the
//! returned draws; always terminates (any number of chains, completion order, precision); a
//! reporter that stops listening changes neither the draws nor termination.

use super::common::*;
use super::targets::{HTarget, Spec};
use crate::engine::num::R;
use crate::engine::{bx, fingerprint, no_panic, CheckResult, Cov, Ctx, Fail};
use crate::ensure;
use burn::tensor::backend::AutodiffBackend;
use mini_mcmc::core::{run_chain, run_chain_progress, ChainRunner, HasChains, MarkovChain};
use mini_mcmc::distributions::{Conditional, Gaussian2D, IsotropicGaussian, Proposal};
use mini_mcmc::gibbs::GibbsSampler;
use mini_mcmc::hmc::HMC;
use mini_mcmc::metropolis_hastings::MetropolisHastings;
use mini_mcmc::nuts::NUTS;
use mini_mcmc::stats::{BasicStats, ChainStats, RunStats};
use ndarray::{arr1, arr2, Array3, ArrayView3};
use proptest::prelude::*;
use rand::rngs::SmallRng;
use rand::{Rng, SeedableRng};
use rand_distr::{Exp1, StandardNormal};
use serde::{Deserialize, Serialize};
use std::sync::mpsc::{self, Receiver};
use std::sync::{Arc, Mutex};
use std::time::Duration;

fn bs_eq(a: &BasicStats, b: &BasicStats) -> bool {
    let f = |x: f32, y: f32| x.to_bits() == y.to_bits() || (x.is_nan() && y.is_nan());
    f(a.min, b.min) && f(a.max, b.max) && f(a.mean, b.mean) && f(a.std, b.std) && f(a.median, b.median)
}
fn stats_eq(a: &RunStats, b: &RunStats) -> bool {
    bs_eq(&a.ess, &b.ess) && bs_eq(&a.rhat, &b.rhat)
}

// ---------------------------------------------------------------------------------------------
// (a) user-defined chains with speed profiles
// ---------------------------------------------------------------------------------------------

struct SlowChain {
    id: usize,
    count: u64,
    per_step: Duration,
    state: Vec<f64>,
}
impl SlowChain {
    fn value(id: usize, count: u64) -> Vec<f64> {
        // a deterministic but "noisy looking" sequence, so that diagnostics are finite
        let h = (id as u64 * 1_000_003 + count).wrapping_mul(0x9E37_79B9_7F4A_7C15);
        vec![id as f64 * 1000.0 + count as f64, ((h >> 40) as f64) / 16777216.0, (count as f64 * 0.37 + id as f64).sin()]
    }
}
impl MarkovChain<f64> for SlowChain {
    fn step(&mut self) -> &Vec<f64> {
        self.count += 1;
        if !self.per_step.is_zero() {
            std::thread::sleep(self.per_step);
        }
        self.state = SlowChain::value(self.id, self.count);
        &self.state
    }
    fn current_state(&self) -> &Vec<f64> {
        &self.state
    }
}
struct SlowSampler {
    chains: Vec<SlowChain>,
}
impl HasChains<f64> for SlowSampler {
    type Chain = SlowChain;
    fn chains_mut(&mut self) -> &mut Vec<SlowChain> {
        &mut self.chains
    }
}

#[derive(Debug, Clone, Serialize, Deserialize)]
pub struct UserCase {
    pub chains: usize,
    pub n_collect: usize,
    pub n_discard: usize,
    /// total run time of chain c in milliseconds: profile[c % len]
    pub profile_ms: Vec<u32>,
}

fn user_strategy() -> BoxedStrategy<UserCase> {
    let delay = prop_oneof![3 => Just(0u32), 2 => Just(120u32), 2 => Just(320u32), 1 => Just(580u32), 1 => 0u32..700];
    bx((
        prop_oneof![2 => 1usize..6, 3 => 6usize..12, 2 => 12usize..=48],
        4usize..20,
        prop_oneof![2 => Just(0usize), 3 => 1usize..20],
        proptest::collection::vec(delay, 1..12),
    )
        .prop_map(|(chains, n_collect, n_discard, profile_ms)| UserCase {
            chains,
            n_collect,
            n_discard,
            profile_ms,
        }))
}

fn check_user(c: &UserCase, cov: &mut Cov) -> CheckResult {
    let total = (c.n_collect + c.n_discard) as u32;
    let mut s = SlowSampler {
        chains: (0..c.chains)
            .map(|id| SlowChain {
                id,
                count: 0,
                per_step: Duration::from_micros(c.profile_ms[id % c.profile_ms.len()] as u64 * 1000 / total as u64),
                state: SlowChain::value(id, 0),
            })
            .collect(),
    };
    let r = no_panic(|| s.run_progress(c.n_collect, c.n_discard)).map_err(|m| Fail::new("progress-panic", format!("run_progress({},{}) with {} user chains panicked: {m}", c.n_collect, c.n_discard, c.chains)))?;
    let (draws, stats) = r.map_err(|e| Fail::new("progress-error", format!("run_progress returned an error: {e}")))?;
    ensure!(draws.shape() == [c.chains, c.n_collect, 3], "progress-shape", "shape {:?}", draws.shape());
    for ch in 0..c.chains {
        for k in 0..c.n_collect {
            let want = SlowChain::value(ch, (c.n_discard + k + 1) as u64);
            for j in 0..3 {
                ensure!(
                    draws[[ch, k, j]].to_bits() == want[j].to_bits(),
                    "progress-draws-differ",
                    "run_progress({},{}) with {} chains: entry [chain {ch}, draw {k}, {j}] = {}, run would return {}",
                    c.n_collect,
                    c.n_discard,
                    c.chains,
                    draws[[ch, k, j]],
                    want[j]
                );
            }
        }
        ensure!(
            s.chains[ch].count == (c.n_collect + c.n_discard) as u64,
            "progress-transition-count",
            "chain {ch} performed {} transitions in progress mode, run performs {}",
            s.chains[ch].count,
            c.n_collect + c.n_discard
        );
    }
    let want = RunStats::from(draws.view());
    ensure!(stats_eq(&stats, &want), "progress-stats-differ", "RunStats of run_progress {:?} differ from RunStats::from(returned draws) {:?}", stats, want);
    let distinct: std::collections::BTreeSet<u32> = (0..c.chains).map(|i| c.profile_ms[i % c.profile_ms.len()]).collect();
    if c.chains > 5 {
        cov.class("more-chains-than-bars");
    }
    if c.chains > 5 && distinct.len() >= 2 {
        cov.nontrivial_u64(fingerprint(c));
    }
    Ok(())
}

// ---------------------------------------------------------------------------------------------
// (b) MH / Gibbs: progress draws == run draws of a twin
// ---------------------------------------------------------------------------------------------

#[derive(Clone)]
struct NoisyConditional {
    rng: SmallRng,
}
impl Conditional<f64> for NoisyConditional {
    fn sample(&mut self, index: usize, given: &[f64]) -> f64 {
        let o: f64 = given.iter().enumerate().filter(|(i, _)| *i != index).map(|(_, v)| *v).sum();
        0.3 * o + self.rng.random::<f64>() - 0.5
    }
}

#[derive(Debug, Clone, Serialize, Deserialize)]
pub struct TwinCase {
    /// 0 MH, 1 Gibbs, 2 HMC, 3 NUTS
    pub kind: u8,
    /// HMC/NUTS: 0 (f32,B32), 1 (f64,B64), 2 (f64,B32), 3 (f32,B64)
    pub combo: u8,
    pub chains: usize,
    pub seed: u64,
    pub n_collect: usize,
    pub n_discard: usize,
    /// > 0: both twins first make a pilot run(prior, 1) ("from the same sampler state" includes
    /// samplers that have run before)
    #[serde(default)]
    pub prior: usize,
}

fn twin_strategy() -> BoxedStrategy<TwinCase> {
    bx((0u8..4, 0u8..4, prop_oneof![3 => 1usize..6, 2 => 6usize..10], any::<u64>(), 4usize..14, 0usize..8, prop_oneof![3 => Just(0usize), 2 => 1usize..6]).prop_map(|(kind, combo, chains, seed, n_collect, n_discard, prior)| TwinCase {
        prior,
        kind,
        combo,
        chains,
        seed,
        n_collect,
        n_discard,
    }))
}

fn gspec() -> Spec {
    Spec::Gauss {
        dim: 2,
        mean: vec![R(0.0), R(1.0)],
        prec: vec![R(0.375), R(-0.25), R(-0.25), R(0.5)],
    }
}

fn tensor_to_array<B: burn::prelude::Backend>(t: &burn::prelude::Tensor<B, 3>) -> Array3<f64> {
    let d = t.dims();
    Array3::from_shape_vec((d[0], d[1], d[2]), to_vec(t)).unwrap()
}

fn hmc_twin<T, B>(c: &TwinCase, cov: &mut Cov) -> CheckResult
where
    T: num_traits::Float + burn::tensor::ElementConversion + burn::tensor::Element + rand_distr::uniform::SampleUniform + num_traits::FromPrimitive,
    B: AutodiffBackend,
    StandardNormal: rand::distr::Distribution<T>,
    rand_distr::StandardUniform: rand_distr::Distribution<T>,
{
    let inits: Vec<Vec<T>> = (0..c.chains).map(|i| vec![T::from_f64(0.3 * i as f64 - 0.5).unwrap(), T::from_f64(1.0 - 0.2 * i as f64).unwrap()]).collect();
    let build = || HMC::<T, B, HTarget>::new(HTarget::new(gspec()), inits.clone(), T::from_f64(0.3).unwrap(), 3).set_seed(c.seed);
    let mut a = build();
    let mut b = build();
    if c.prior > 0 {
        let _ = a.run(c.prior, 1);
        let _ = b.run(c.prior, 1);
        cov.class("sampler-had-run-before");
    }
    let plain = tensor_to_array(&a.run(c.n_collect, c.n_discard));
    let r = no_panic(|| b.run_progress(c.n_collect, c.n_discard)).map_err(|m| Fail::new("progress-panic precision", format!("HMC::run_progress panicked (T = {}, backend float = {}): {m}", std::any::type_name::<T>(), std::any::type_name::<B::FloatElem>())))?;
    let (t, stats) = r.map_err(|e| Fail::new("progress-error", format!("HMC::run_progress returned an error: {e}")))?;
    let prog = tensor_to_array(&t);
    ensure!(prog.shape() == plain.shape(), "progress-shape", "HMC::run_progress shape {:?} vs run {:?}", prog.shape(), plain.shape());
    ensure!(
        prog.iter().zip(plain.iter()).all(|(x, y)| x.to_bits() == y.to_bits()),
        "progress-draws-differ",
        "HMC::run_progress({},{}) draws differ from HMC::run of an identically seeded twin",
        c.n_collect,
        c.n_discard
    );
    let want = RunStats::from(prog.view());
    ensure!(stats_eq(&stats, &want), "progress-stats-differ", "HMC::run_progress stats {:?} vs RunStats::from(draws) {:?}", stats, want);
    let (pa, pb) = (to_vec(&a.positions), to_vec(&b.positions));
    ensure!(pa.iter().zip(&pb).all(|(u, v)| u.to_bits() == v.to_bits()), "progress-final-state", "after HMC::run_progress the sampler is not where run leaves its twin");
    cov.class("hmc");
    Ok(())
}

fn nuts_twin<T, B>(c: &TwinCase, cov: &mut Cov) -> CheckResult
where
    T: num_traits::Float + burn::tensor::ElementConversion + burn::tensor::Element + rand_distr::uniform::SampleUniform + num_traits::FromPrimitive + Send,
    B: AutodiffBackend + Send,
    StandardNormal: rand::distr::Distribution<T>,
    rand_distr::StandardUniform: rand_distr::Distribution<T>,
    Exp1: rand_distr::Distribution<T>,
{
    let inits: Vec<Vec<T>> = (0..c.chains).map(|i| vec![T::from_f64(0.3 * i as f64 - 0.5).unwrap(), T::from_f64(1.0 - 0.2 * i as f64).unwrap()]).collect();
    let (ta, tb) = (HTarget::with_budget(gspec(), 60_000), HTarget::with_budget(gspec(), 60_000));
    let mut a = NUTS::<T, B, HTarget>::new(ta.clone(), inits.clone(), T::from_f64(0.8).unwrap()).set_seed(c.seed);
    let mut b = NUTS::<T, B, HTarget>::new(tb.clone(), inits.clone(), T::from_f64(0.8).unwrap()).set_seed(c.seed);
    // (a chain that has run before and is then asked for a longer warm-up re-opens dual averaging
    // in mid-stream, which can collapse the step size and cost minutes: after a pilot run the
    // compared runs use no warm-up)
    let n_discard = if c.prior > 0 { 0 } else { c.n_discard };
    let c = &TwinCase { n_discard, ..c.clone() };
    if c.prior > 0 {
        let _ = a.run(c.prior, 1);
        let _ = b.run(c.prior, 1);
        cov.class("sampler-had-run-before");
    }
    // the same trajectory shifted by NUTS's one-draw offset
    let plain = tensor_to_array(&a.run(c.n_collect + 1, c.n_discard));
    let r = no_panic(|| b.run_progress(c.n_collect, c.n_discard));
    if ta.exhausted() || tb.exhausted() {
        // the two twins evaluate the target a different number of times (run makes one draw
        // more): once a budget ran out their trajectories are no longer comparable
        cov.class("evaluation-budget-exhausted-skip");
        return Ok(());
    }
    let r = r.map_err(|m| Fail::new("progress-panic precision", format!("NUTS::run_progress panicked (T = {}, backend float = {}): {m}", std::any::type_name::<T>(), std::any::type_name::<B::FloatElem>())))?;
    let (t, stats) = r.map_err(|e| Fail::new("progress-error", format!("NUTS::run_progress returned an error: {e}")))?;
    let prog = tensor_to_array(&t);
    ensure!(prog.shape() == [c.chains, c.n_collect, 2], "progress-shape", "NUTS::run_progress shape {:?}", prog.shape());
    for ch in 0..c.chains {
        for k in 0..c.n_collect {
            for j in 0..2 {
                ensure!(
                    prog[[ch, k, j]].to_bits() == plain[[ch, k + 1, j]].to_bits(),
                    "progress-draws-differ",
                    "NUTS::run_progress({},{}): entry [chain {ch}, {k}, {j}] = {} but row {} of run({},{}) of an identically seeded twin is {}",
                    c.n_collect,
                    c.n_discard,
                    prog[[ch, k, j]],
                    k + 1,
                    c.n_collect + 1,
                    c.n_discard,
                    plain[[ch, k + 1, j]]
                );
            }
        }
    }
    let want = RunStats::from(prog.view());
    ensure!(stats_eq(&stats, &want), "progress-stats-differ", "NUTS::run_progress stats {:?} vs RunStats::from(draws) {:?}", stats, want);
    // the sampler itself (not a copy of it) was advanced: same counters, step sizes and positions
    // as the twin that used run
    for (i, (x, y)) in a.verif_chains().iter().zip(b.verif_chains().iter()).enumerate() {
        let (sa, sb) = (x.verif_state(), y.verif_state());
        let f = |v: T| num_traits::ToPrimitive::to_f64(&v).unwrap();
        ensure!(
            sa.0 == sb.0 && f(sa.1).to_bits() == f(sb.1).to_bits() && f(sa.2).to_bits() == f(sb.2).to_bits(),
            "progress-final-state",
            "after NUTS::run_progress chain {i} has (m, eps, eps_bar) = ({}, {}, {}), after run the twin has ({}, {}, {})",
            sb.0,
            f(sb.1),
            f(sb.2),
            sa.0,
            f(sa.1),
            f(sa.2)
        );
        let (pa, pb) = (to_vec(&x.position), to_vec(&y.position));
        ensure!(pa.iter().zip(&pb).all(|(u, v)| u.to_bits() == v.to_bits()), "progress-final-state", "after NUTS::run_progress chain {i} is at {:?}, the twin at {:?}", pb, pa);
    }
    // and a following run continues from there
    let next_a = tensor_to_array(&a.run(2, 0));
    let next_b = tensor_to_array(&b.run(2, 0));
    ensure!(next_a.iter().zip(next_b.iter()).all(|(u, v)| u.to_bits() == v.to_bits()), "progress-final-state", "a run that follows NUTS::run_progress does not continue where a run that follows run continues");
    cov.class("nuts");
    Ok(())
}

fn check_twin(c: &TwinCase, cov: &mut Cov) -> CheckResult {
    let inits: Vec<Vec<f64>> = (0..c.chains).map(|i| vec![0.3 * i as f64 - 0.5, 1.0 - 0.2 * i as f64]).collect();
    match c.kind {
        0 => {
            let build = || {
                MetropolisHastings::new(
                    Gaussian2D {
                        mean: arr1(&[0.0, 1.0]),
                        cov: arr2(&[[4.0, 2.0], [2.0, 3.0]]),
                    },
                    IsotropicGaussian::<f64>::new(1.0).set_seed(c.seed ^ 3),
                    inits.clone(),
                )
                .seed(c.seed)
            };
            let mut a = build();
            let mut b = build();
            if c.prior > 0 {
                let _ = a.run(c.prior, 1);
                let _ = b.run(c.prior, 1);
                cov.class("sampler-had-run-before");
            }
            let plain = a.run(c.n_collect, c.n_discard).map_err(|e| Fail::new("run-error", e.to_string()))?;
            let r = no_panic(|| b.run_progress(c.n_collect, c.n_discard)).map_err(|m| Fail::new("progress-panic", format!("MH run_progress panicked: {m}")))?;
            let (prog, stats) = r.map_err(|e| Fail::new("progress-error", format!("MH run_progress returned an error: {e}")))?;
            ensure!(prog.shape() == plain.shape() && prog.iter().zip(plain.iter()).all(|(x, y)| x.to_bits() == y.to_bits()), "progress-draws-differ", "MH run_progress draws differ from run of an identically seeded twin");
            let want = RunStats::from(prog.view());
            ensure!(stats_eq(&stats, &want), "progress-stats-differ", "MH run_progress stats {:?} vs {:?}", stats, want);
            for (x, y) in a.chains.iter().zip(b.chains.iter()) {
                ensure!(x.current_state == y.current_state, "progress-final-state", "after run_progress the chains are not where run leaves them");
            }
            cov.class("mh");
        }
        1 => {
            let build = || GibbsSampler::new(NoisyConditional { rng: SmallRng::seed_from_u64(c.seed) }, inits.clone()).set_seed(c.seed);
            let mut a = build();
            let mut b = build();
            if c.prior > 0 {
                let _ = a.run(c.prior, 1);
                let _ = b.run(c.prior, 1);
                cov.class("sampler-had-run-before");
            }
            let plain = a.run(c.n_collect, c.n_discard).map_err(|e| Fail::new("run-error", e.to_string()))?;
            let r = no_panic(|| b.run_progress(c.n_collect, c.n_discard)).map_err(|m| Fail::new("progress-panic", format!("Gibbs run_progress panicked: {m}")))?;
            let (prog, stats) = r.map_err(|e| Fail::new("progress-error", format!("Gibbs run_progress returned an error: {e}")))?;
            ensure!(prog.shape() == plain.shape() && prog.iter().zip(plain.iter()).all(|(x, y)| x.to_bits() == y.to_bits()), "progress-draws-differ", "Gibbs run_progress draws differ from run of an identically seeded twin");
            let want = RunStats::from(prog.view());
            ensure!(stats_eq(&stats, &want), "progress-stats-differ", "Gibbs run_progress stats {:?} vs {:?}", stats, want);
            cov.class("gibbs");
        }
        2 => match c.combo {
            0 => hmc_twin::<f32, B32>(c, cov)?,
            1 => hmc_twin::<f64, B64>(c, cov)?,
            2 => hmc_twin::<f64, B32>(c, cov)?,
            _ => hmc_twin::<f32, B64>(c, cov)?,
        },
        _ => match c.combo {
            0 => nuts_twin::<f32, B32>(c, cov)?,
            1 => nuts_twin::<f64, B64>(c, cov)?,
            2 => nuts_twin::<f64, B32>(c, cov)?,
            _ => nuts_twin::<f32, B64>(c, cov)?,
        },
    }
    if c.kind >= 2 {
        cov.class(["T=f32,B=f32", "T=f64,B=f64", "T=f64,B=f32", "T=f32,B=f64"][c.combo as usize]);
    }
    if (c.kind >= 2 && c.combo != 0) || c.chains > 5 {
        cov.nontrivial_u64(fingerprint(c));
    }
    Ok(())
}

// ---------------------------------------------------------------------------------------------
// (c) run_chain_progress with a receiver that stops listening
// ---------------------------------------------------------------------------------------------

struct DroppingChain {
    per_step: Duration,
    count: u64,
    state: Vec<f64>,
    drop_at: Option<u64>,
    rx: Arc<Mutex<Option<Receiver<ChainStats>>>>,
}
impl MarkovChain<f64> for DroppingChain {
    fn step(&mut self) -> &Vec<f64> {
        self.count += 1;
        if !self.per_step.is_zero() {
            std::thread::sleep(self.per_step);
        }
        if Some(self.count) == self.drop_at {
            // the reporter stops listening while the worker is running
            self.rx.lock().unwrap().take();
        }
        self.state = SlowChain::value(7, self.count);
        &self.state
    }
    fn current_state(&self) -> &Vec<f64> {
        &self.state
    }
}

#[derive(Debug, Clone, Serialize, Deserialize)]
pub struct DropCase {
    /// total run time of the worker in ms (> 1000 ms makes it attempt periodic sends)
    #[serde(default)]
    pub slow_ms: u32,
    pub n_collect: usize,
    pub n_discard: usize,
    /// 0 dropped before the call, 1 during (at step `at`), 2 after (kept alive)
    pub mode: u8,
    pub at: u64,
}

fn drop_strategy() -> BoxedStrategy<DropCase> {
    bx((4usize..40, 0usize..20, 0u8..3, any::<u64>(), prop_oneof![60 => Just(0u32), 1 => 1300u32..2400]).prop_map(|(n_collect, n_discard, mode, at, slow_ms)| DropCase { slow_ms, n_collect, n_discard, mode, at }))
}

fn check_drop(c: &DropCase, cov: &mut Cov) -> CheckResult {
    let total = (c.n_collect + c.n_discard) as u64;
    let (tx, rx) = mpsc::channel::<ChainStats>();
    let holder = Arc::new(Mutex::new(Some(rx)));
    let drop_at = match c.mode {
        0 => {
            holder.lock().unwrap().take();
            None
        }
        1 => Some(1 + c.at % total),
        _ => None,
    };
    let mut chain = DroppingChain {
        per_step: Duration::from_micros(c.slow_ms as u64 * 1000 / total),
        count: 0,
        state: SlowChain::value(7, 0),
        drop_at,
        rx: holder.clone(),
    };
    let mut twin = DroppingChain {
        per_step: Duration::ZERO,
        count: 0,
        state: SlowChain::value(7, 0),
        drop_at: None,
        rx: Arc::new(Mutex::new(None)),
    };
    let want = run_chain(&mut twin, c.n_collect, c.n_discard);
    let r = no_panic(|| run_chain_progress(&mut chain, c.n_collect, c.n_discard, tx)).map_err(|m| Fail::new("progress-panic receiver-dropped", format!("run_chain_progress panicked when the receiver was dropped (mode {}): {m}", c.mode)))?;
    let got = r.map_err(|e| Fail::new("progress-error receiver-dropped", format!("run_chain_progress returned an error when the receiver was dropped (mode {}, step {:?}): {e}", c.mode, drop_at)))?;
    ensure!(
        got.shape() == want.shape() && got.iter().zip(want.iter()).all(|(x, y)| x.to_bits() == y.to_bits()),
        "progress-draws-differ receiver-dropped",
        "run_chain_progress({},{}) with the receiver dropped (mode {}, at step {:?}) returns draws that differ from run_chain",
        c.n_collect,
        c.n_discard,
        c.mode,
        drop_at
    );
    ensure!(chain.count == total, "progress-transition-count", "worker performed {} transitions, expected {total}", chain.count);
    cov.class(["receiver-dropped-before", "receiver-dropped-during", "receiver-kept"][c.mode as usize]);
    if c.slow_ms > 0 {
        cov.class("worker-runs-longer-than-the-1s-send-period");
    }
    if c.mode == 1 {
        cov.nontrivial_u64(fingerprint(c));
    }
    let _ = ArrayView3::<f64>::from_shape((0, 0, 0), &[]);
    Ok(())
}

// ---------------------------------------------------------------------------------------------
// (d) NUTS's own progress display with chains of very different speeds
// ---------------------------------------------------------------------------------------------

/// every clone (= every chain of a NUTS sampler) sleeps its own time per evaluation
struct PacedTarget {
    inner: HTarget,
    delays_us: Arc<Vec<u32>>,
    id: usize,
    next_id: Arc<std::sync::atomic::AtomicUsize>,
}
impl Clone for PacedTarget {
    fn clone(&self) -> Self {
        PacedTarget {
            inner: self.inner.clone(),
            delays_us: self.delays_us.clone(),
            id: self.next_id.fetch_add(1, std::sync::atomic::Ordering::SeqCst) + 1,
            next_id: self.next_id.clone(),
        }
    }
}
impl mini_mcmc::distributions::GradientTarget<f64, B64> for PacedTarget {
    fn unnorm_logp(&self, position: burn::prelude::Tensor<B64, 1>) -> burn::prelude::Tensor<B64, 1> {
        if self.id > 0 && !self.delays_us.is_empty() {
            let us = self.delays_us[(self.id - 1) % self.delays_us.len()];
            if us > 0 {
                std::thread::sleep(Duration::from_micros(us as u64));
            }
        }
        <HTarget as mini_mcmc::distributions::GradientTarget<f64, B64>>::unnorm_logp(&self.inner, position)
    }
}

#[derive(Debug, Clone, Serialize, Deserialize)]
pub struct StragglerCase {
    pub chains: usize,
    pub seed: u64,
    pub n_collect: usize,
    pub n_discard: usize,
    /// per-chain delay per target evaluation, microseconds (0 = as fast as it goes)
    pub delays_us: Vec<u32>,
}

fn straggler_strategy() -> BoxedStrategy<StragglerCase> {
    // most chains fast, a few finish together a little later, one or two stragglers
    let delay = prop_oneof![5 => Just(0u32), 2 => 200u32..1500, 2 => 4_000u32..9_000, 2 => 15_000u32..40_000];
    bx((6usize..=14, any::<u64>(), 3usize..7, 0usize..4).prop_flat_map(move |(chains, seed, n_collect, n_discard)| {
        (Just(chains), Just(seed), Just(n_collect), Just(n_discard), proptest::collection::vec(delay.clone(), chains))
    })
    .prop_map(|(chains, seed, n_collect, n_discard, delays_us)| StragglerCase { chains, seed, n_collect, n_discard, delays_us }))
}

fn check_straggler(c: &StragglerCase, cov: &mut Cov) -> CheckResult {
    let inits: Vec<Vec<f64>> = (0..c.chains).map(|i| vec![0.3 * i as f64 - 0.5, 1.0 - 0.2 * i as f64]).collect();
    let (ia, ib) = (HTarget::with_budget(gspec(), 60_000), HTarget::with_budget(gspec(), 60_000));
    let mk = |delays: Vec<u32>, inner: &HTarget| PacedTarget {
        inner: inner.clone(),
        delays_us: Arc::new(delays),
        id: 0,
        next_id: Arc::new(std::sync::atomic::AtomicUsize::new(0)),
    };
    let mut a = NUTS::<f64, B64, PacedTarget>::new(mk(vec![], &ia), inits.clone(), 0.8).set_seed(c.seed);
    let mut b = NUTS::<f64, B64, PacedTarget>::new(mk(c.delays_us.clone(), &ib), inits.clone(), 0.8).set_seed(c.seed);
    let plain = tensor_to_array(&a.run(c.n_collect + 1, c.n_discard));
    let r = no_panic(|| b.run_progress(c.n_collect, c.n_discard));
    if ia.exhausted() || ib.exhausted() {
        cov.class("evaluation-budget-exhausted-skip");
        return Ok(());
    }
    let r = r.map_err(|m| Fail::new("progress-panic stragglers", format!("NUTS::run_progress with {} chains of different speeds panicked: {m}", c.chains)))?;
    let (t, _stats) = r.map_err(|e| Fail::new("progress-error", format!("NUTS::run_progress returned an error: {e}")))?;
    let prog = tensor_to_array(&t);
    ensure!(prog.shape() == [c.chains, c.n_collect, 2], "progress-shape", "NUTS::run_progress shape {:?}", prog.shape());
    for ch in 0..c.chains {
        for k in 0..c.n_collect {
            for j in 0..2 {
                ensure!(
                    prog[[ch, k, j]].to_bits() == plain[[ch, k + 1, j]].to_bits(),
                    "progress-draws-differ",
                    "NUTS::run_progress with chains of different speeds: entry [chain {ch}, {k}, {j}] differs from the identically seeded twin's run"
                );
            }
        }
    }
    let distinct: std::collections::BTreeSet<u32> = c.delays_us.iter().cloned().collect();
    if distinct.len() >= 3 {
        cov.nontrivial_u64(fingerprint(c));
    }
    cov.class(if c.chains >= 7 { "nuts-stragglers >=7 chains" } else { "nuts-stragglers 6 chains" });
    Ok(())
}

pub fn run(ctx: &mut Ctx) {
    ctx.rule = "user-defined chains with per-chain speed profiles (total run times 0..700 ms, so different subsets finish between the reporter's 250 ms polls), 1..48 chains (bars recycled above 5), n_collect 4..20, n_discard 0..20; MH / Gibbs / HMC / NUTS twins (run vs run_progress, identical seeds), element type x backend in {f32,f64}^2 for HMC and NUTS; run_chain_progress with the receiver dropped before / at step k / never; non-trivial = > 5 chains with >= 2 distinct speeds, a non-f32 combination, or a receiver dropped mid-run; distinct by case fingerprint".into();
    ctx.assume("termination is observed, not proved: every case runs under a 45 s watchdog in a child process; a timeout is confirmed by re-running the case alone with twice the limit");
    ctx.assume("completion orders are varied through per-chain delays; the OS schedule itself is not owned");
    ctx.use_pool_thread = false;
    ctx.plain_pool_threads = 4;
    ctx.set_case_timeout(45.0);
    let t = ctx.tier;
    // cases cost up to seconds each: small shrink budgets (a failing case is a small struct anyway)
    ctx.max_shrink_iters = 100;
    ctx.section("user-chains", "run_progress on user chains: draws = counter model (what run returns), exact transition count, RunStats = RunStats::from(draws), returns Ok, terminates", t.pick(260, 8_000), 16, user_strategy, check_user);
    ctx.section("sampler-twins", "run_progress vs run of an identically seeded twin (NUTS: shifted by one draw), RunStats from the returned draws, all precision combinations", t.pick(320, 10_000), 16, twin_strategy, check_twin);
    ctx.max_shrink_iters = 8;
    ctx.section("nuts-stragglers", "NUTS::run_progress with 6..14 chains whose per-evaluation delays differ by orders of magnitude (groups finishing within one 250 ms refresh, stragglers): returns Ok with the draws of the twin's run", t.pick(32, 800), 16, straggler_strategy, check_straggler);
    ctx.max_shrink_iters = 3000;
    ctx.section("receiver-dropped", "run_chain_progress with a receiver dropped before / during / never: draws bitwise those of run_chain, Ok, exact transition count", t.pick(4_000, 120_000), 16, drop_strategy, check_drop);
}

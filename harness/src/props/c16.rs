//! C16 — Categorical: normalised probabilities, exact logp, samples follow probs and never
//! return a zero-probability category.

use crate::engine::num::R;
use super::common::Fl;
use crate::engine::{bx, CheckResult, Cov, Ctx, Fail};
use crate::ensure;
use mini_mcmc::distributions::{Categorical, Discrete, Target};
use proptest::prelude::*;
use rand::rngs::SmallRng;
use rand::SeedableRng;
use serde::{Deserialize, Serialize};

#[derive(Debug, Clone, Serialize, Deserialize)]
pub struct Case {
    pub f32: bool,
    pub weights: Vec<R>,
    /// 0: raw k, 1: k = 0, 2: k = max, 3: boundary of category `bidx` + `bdelta` ulps, 4: k = 1
    pub vsel: u8,
    pub vraw: u64,
    pub bidx: u16,
    pub bdelta: i8,
    pub salt: u64,
    /// out-of-range index offset for the logp check
    pub oob: u16,
}

fn weight() -> impl Strategy<Value = f64> {
    prop_oneof![
        6 => Just(0.0f64),
        6 => 0.0f64..1.0,
        3 => (1u32..10).prop_map(|x| x as f64),
        1 => Just(1e-30f64),
        1 => Just(1e20f64),
        1 => 1e-6f64..1e-3,
        1 => Just(f32::MIN_POSITIVE as f64),
        1 => Just(1.0f64),
    ]
}

fn weights() -> impl Strategy<Value = Vec<R>> {
    let len = prop_oneof![4 => 1usize..6, 3 => 6usize..20, 1 => 20usize..=64];
    // post-processing class: 0 as generated, 1 total within 1e-4..1e-15 of one (but not one),
    // 2 all weights subnormal (total below 1/MAX), 3 one category with probability ~2^-30..2^-60
    let class = prop_oneof![10 => Just(0u8), 2 => Just(1u8), 1 => Just(2u8), 2 => Just(3u8)];
    (len, any::<u16>(), 0.01f64..10.0, class, 3.0f64..15.0, any::<bool>())
        .prop_flat_map(|(n, pos, posw, class, mag, sign)| {
            (proptest::collection::vec(weight(), n), Just(pos), Just(posw), Just(class), Just(mag), Just(sign))
        })
        .prop_map(|(mut w, pos, posw, class, mag, sign)| {
            let n = w.len();
            let at = (pos as usize * n) >> 16;
            if w.iter().all(|x| *x == 0.0) {
                w[at] = posw;
            }
            match class {
                1 => {
                    // moderate weights, total = 1 +- 10^-mag
                    for x in w.iter_mut() {
                        if *x != 0.0 {
                            *x = x.clamp(1e-3, 1.0);
                        }
                    }
                    let t: f64 = w.iter().sum();
                    for x in w.iter_mut() {
                        *x /= t;
                    }
                    let k = w.iter().position(|x| *x > 0.0).unwrap();
                    w[k] *= 1.0 + if sign { 1.0 } else { -1.0 } * 10f64.powf(-mag);
                }
                2 => {
                    for x in w.iter_mut() {
                        if *x != 0.0 {
                            *x = (1.0 + (*x).min(8.0)) * 1e-310;
                        }
                    }
                }
                3 => {
                    for x in w.iter_mut() {
                        if *x != 0.0 {
                            *x = x.clamp(1e-2, 1.0);
                        }
                    }
                    w[at] = 2f64.powf(-(20.0 + 3.0 * mag));
                    if n == 1 {
                        w[0] = 1.0;
                    }
                }
                _ => {}
            }
            w.into_iter().map(R).collect()
        })
}

pub fn strategy() -> BoxedStrategy<Case> {
    bx((
        any::<bool>(),
        weights(),
        prop_oneof![4 => Just(0u8), 2 => Just(1u8), 2 => Just(2u8), 6 => Just(3u8), 1 => Just(4u8)],
        any::<u64>(),
        any::<u16>(),
        prop_oneof![4 => -2i8..=2, 1 => Just(20i8), 1 => Just(-20i8), 1 => Just(40i8), 1 => Just(-40i8), 1 => Just(60i8), 1 => Just(-60i8)],
        any::<u64>(),
        0u16..100,
    )
        .prop_map(|(f32, weights, vsel, vraw, bidx, bdelta, salt, oob)| Case {
            f32,
            weights,
            vsel,
            vraw,
            bidx,
            bdelta,
            salt,
            oob,
        }))
}

/// validity of the stored probabilities and of logp
fn check_probs<T: Fl>(w: &[T], cat: &Categorical<T>, oob: usize) -> CheckResult
where
    rand_distr::StandardUniform: rand_distr::Distribution<T>,
{
    let n = w.len();
    let eps = T::epsilon().f();
    ensure!(cat.probs.len() == n, "probs-len", "probs has length {} for {} weights", cat.probs.len(), n);
    let wsum: f64 = w.iter().map(|x| x.f()).sum();
    let mut psum = 0.0f64;
    for i in 0..n {
        let p = cat.probs[i].f();
        ensure!(p >= 0.0 && p.is_finite(), "probs-range", "probs[{i}] = {p}");
        let want = w[i].f() / wsum;
        ensure!(
            (p - want).abs() <= 4.0 * (n as f64) * eps * want + f64::from(f32::MIN_POSITIVE) * if T::BITS == 24 { 1.0 } else { 0.0 },
            "probs-value",
            "probs[{i}] = {p:e}, expected w_i/sum = {want:e} (weights {:?})",
            w
        );
        if w[i].f() == 0.0 {
            ensure!(p == 0.0, "probs-zero", "zero weight {i} got probability {p}");
        }
        psum += p;
    }
    ensure!((psum - 1.0).abs() <= 2.0 * n as f64 * eps, "probs-sum", "probabilities sum to {psum}");
    for i in 0..n {
        let lp = <Categorical<T> as Discrete<T>>::logp(cat, i);
        let want = cat.probs[i].ln();
        ensure!(
            lp.f().to_bits() == want.f().to_bits(),
            "logp-value",
            "logp({i}) = {:?}, ln(probs[{i}]) = {:?}",
            lp,
            want
        );
        let lt = <Categorical<T> as Target<usize, T>>::unnorm_logp(cat, &[i]);
        ensure!(lt.f().to_bits() == want.f().to_bits(), "logp-target", "unnorm_logp([{i}]) = {:?} vs {:?}", lt, want);
    }
    for idx in [n, n + oob, usize::MAX] {
        let lp = <Categorical<T> as Discrete<T>>::logp(cat, idx);
        ensure!(lp.f() == f64::NEG_INFINITY, "logp-oob", "logp({idx}) = {:?} for len {n}", lp);
        let lt = <Categorical<T> as Target<usize, T>>::unnorm_logp(cat, &[idx]);
        ensure!(lt.f() == f64::NEG_INFINITY, "logp-oob", "unnorm_logp([{idx}]) = {:?} for len {n}", lt);
    }
    Ok(())
}

/// weights in T; the "all subnormal" class (f64 weights ~1e-310) is mapped to f32 subnormals
fn to_weights<T: Fl>(weights: &[R]) -> Vec<T> {
    let tiny_total = weights.iter().map(|r| r.0).sum::<f64>() < 1e-300;
    weights.iter().map(|r| T::of(if tiny_total && T::BITS == 24 { r.0 * 1e270 } else { r.0 })).collect()
}

fn cdf_f64<T: Fl>(probs: &[T]) -> Vec<f64> {
    let mut c = Vec::with_capacity(probs.len());
    let mut s = 0.0;
    for p in probs {
        s += p.f();
        c.push(s);
    }
    c
}

fn check_t<T: Fl>(case: &Case, cov: &mut Cov) -> CheckResult
where
    rand_distr::StandardUniform: rand_distr::Distribution<T>,
{
    let w: Vec<T> = to_weights::<T>(&case.weights);
    ensure!(w.iter().any(|x| x.f() > 0.0), "harness", "generator produced all-zero weights");
    let n = w.len();
    let base = Categorical::<T>::with_rng(w.clone(), SmallRng::seed_from_u64(case.salt));
    check_probs(&w, &base, case.oob as usize)?;
    let probs = base.probs.clone();
    let cdf = cdf_f64(&probs);
    let kmax = (1u64 << T::BITS) - 1;
    let mut near_boundary = false;
    let k = match case.vsel {
        0 => case.vraw & kmax,
        1 => 0,
        2 => kmax,
        4 => 1,
        _ => {
            let bi = (case.bidx as usize * n) >> 16;
            near_boundary = true;
            let kb = (cdf[bi] * T::den()).floor();
            let kb = if kb.is_finite() { kb as i64 } else { 0 };
            // small offsets are ulps; +-20/40/60 mean +-2^10/2^20/2^30 ulps
            let off: i64 = match case.bdelta {
                -2..=2 => case.bdelta as i64,
                d => (d as i64).signum() * (1i64 << ((d as i64).abs() / 2)),
            };
            (kb + off).clamp(0, kmax as i64) as u64
        }
    };
    // the object under test: built from the *weights* with the crafted generator
    let mut cat = Categorical::<T>::with_rng(w.clone(), T::crafted(k, case.salt));
    ensure!(
        cat.probs.iter().zip(&probs).all(|(a, b)| a.f().to_bits() == b.f().to_bits()),
        "probs-deterministic",
        "two constructions from the same weights store different probabilities"
    );
    let idx = cat.sample();
    let r = k as f64 / T::den();
    ensure!(idx < n, "sample-range", "sample() = {idx} for {n} categories (u = {r:e})");
    if !(probs[idx].f() > 0.0) {
        let sig = if k == 0 { "sample-zero-prob u=0" } else { "sample-zero-prob u>0" };
        return Err(Fail::new(
            sig,
            format!(
                "sample() returned category {idx} whose probability is {:?} (u = {k}*2^-{} = {r:e}, probs = {:?})",
                probs[idx],
                T::BITS,
                probs
            ),
        ));
    }
    let tol = 2.0 * n as f64 * T::epsilon().f();
    let lo = if idx == 0 { 0.0 } else { cdf[idx - 1] };
    let last_pos = (0..n).rev().find(|&i| probs[i].f() > 0.0).unwrap();
    let hi = if idx == last_pos { cdf[idx].max(1.0) } else { cdf[idx] };
    ensure!(
        lo - tol <= r && r <= hi + tol,
        "sample-cdf",
        "sample() = {idx} for u = {r:e}, but the cdf interval of that category is [{lo:e}, {hi:e}] (probs {:?})",
        probs
    );
    // drawing is not an update: the stored probabilities (hence logp) are what they were, and
    // later draws from the same object still never land on a zero-probability category
    ensure!(
        cat.probs.len() == n && cat.probs.iter().zip(&probs).all(|(a, b)| a.f().to_bits() == b.f().to_bits()),
        "sample-mutates-probs",
        "after sample() (u = {r:e}) the stored probabilities changed from {:?} to {:?}",
        probs,
        cat.probs
    );
    for extra in 0..3 {
        let j = cat.sample();
        ensure!(j < n && probs[j].f() > 0.0, "sample-zero-prob later-draw", "draw {} after the crafted one returned category {j} with probability {:?} (probs {:?})", extra + 2, probs.get(j), probs);
    }
    ensure!(
        cat.probs.iter().zip(&probs).all(|(a, b)| a.f().to_bits() == b.f().to_bits()),
        "sample-mutates-probs",
        "after four draws the stored probabilities changed from {:?} to {:?}",
        probs,
        cat.probs
    );
    // classification
    let zeros = probs.iter().filter(|p| p.f() == 0.0).count();
    let pos = n - zeros;
    cov.class(if T::BITS == 24 { "f32" } else { "f64" });
    if zeros > 0 {
        cov.class("has-zero-weight");
    }
    if probs[0].f() == 0.0 {
        cov.class("leading-zero");
    }
    if probs[n - 1].f() == 0.0 {
        cov.class("trailing-zero");
    }
    match case.vsel {
        1 => cov.class("u=0"),
        2 => cov.class("u=1-ulp"),
        3 => cov.class("u-near-boundary"),
        4 => cov.class("u=min-positive"),
        _ => cov.class("u-random"),
    }
    if (zeros >= 1 && pos >= 2) || near_boundary {
        cov.nontrivial(&(case.f32, crate::engine::fingerprint(&case.weights), k));
    }
    Ok(())
}

pub fn check(case: &Case, cov: &mut Cov) -> CheckResult {
    if case.f32 {
        check_t::<f32>(case, cov)
    } else {
        check_t::<f64>(case, cov)
    }
}

// ---------------------------------------------------------------------------------------------
// measure section: stratified grid of variates, the measure mapped to each index ~ probs
// ---------------------------------------------------------------------------------------------

#[derive(Debug, Clone, Serialize, Deserialize)]
pub struct MeasureCase {
    pub f32: bool,
    pub weights: Vec<R>,
    pub grid_log2: u8,
    pub offset: u64,
    pub salt: u64,
    pub seed: u64,
}

fn measure_strategy(max_grid: u8) -> BoxedStrategy<MeasureCase> {
    bx((any::<bool>(), weights(), 8u8..=max_grid, any::<u64>(), any::<u64>(), any::<u64>()).prop_map(
        |(f32, weights, grid_log2, offset, salt, seed)| MeasureCase {
            f32,
            weights,
            grid_log2,
            offset,
            salt,
            seed,
        },
    ))
}

fn measure_t<T: Fl>(case: &MeasureCase, cov: &mut Cov) -> CheckResult
where
    rand_distr::StandardUniform: rand_distr::Distribution<T>,
{
    let w: Vec<T> = to_weights::<T>(&case.weights);
    let n = w.len();
    let g = (case.grid_log2 as u32).min(T::BITS);
    let cells = 1u64 << g;
    let stride = 1u64 << (T::BITS - g);
    let off = case.offset % stride;
    let base = Categorical::<T>::with_rng(w.clone(), SmallRng::seed_from_u64(1));
    let probs = base.probs.clone();
    let mut counts = vec![0u64; n];
    let mut prev = 0usize;
    for c in 0..cells {
        let k = c * stride + off;
        let mut cat = Categorical::<T>::with_rng(w.clone(), T::crafted(k, case.salt.wrapping_add(c)));
        let idx = cat.sample();
        ensure!(idx < n, "sample-range", "sample() = {idx} for {n} categories");
        ensure!(
            probs[idx].f() > 0.0,
            if k == 0 { "sample-zero-prob u=0" } else { "sample-zero-prob u>0" },
            "sample() returned zero-probability category {idx} at u = {k}*2^-{} (probs {:?})",
            T::BITS,
            probs
        );
        ensure!(idx >= prev, "sample-monotone", "sample index decreased from {prev} to {idx} when u grew to {k}*2^-{}", T::BITS);
        prev = idx;
        counts[idx] += 1;
    }
    cov.evals(cells);
    for i in 0..n {
        let frac = counts[i] as f64 / cells as f64;
        let p = probs[i].f();
        ensure!(
            (frac - p).abs() <= 2.0 / cells as f64 + 4.0 * n as f64 * T::epsilon().f(),
            "sample-measure",
            "category {i}: fraction of the variate grid mapped to it is {frac}, probability {p} (grid 2^{g})"
        );
    }
    // seeded natural sampling: frequencies
    let draws = 4000u64;
    let mut cat = Categorical::<T>::with_rng(w.clone(), SmallRng::seed_from_u64(case.seed));
    let mut cnt = vec![0u64; n];
    for _ in 0..draws {
        let idx = cat.sample();
        ensure!(idx < n, "sample-range", "sample() = {idx} for {n} categories");
        ensure!(probs[idx].f() > 0.0, "sample-zero-prob u>0", "seeded sampling returned zero-probability category {idx}");
        cnt[idx] += 1;
    }
    for i in 0..n {
        let p = probs[i].f();
        let sd = (draws as f64 * p * (1.0 - p)).sqrt();
        ensure!(
            (cnt[i] as f64 - draws as f64 * p).abs() <= 6.5 * sd + 1.5,
            "sample-frequency",
            "category {i}: {} of {draws} seeded draws, probability {p}",
            cnt[i]
        );
    }
    let zeros = probs.iter().filter(|p| p.f() == 0.0).count();
    if zeros >= 1 && n - zeros >= 2 {
        cov.nontrivial(&(case.f32, crate::engine::fingerprint(&case.weights)));
        cov.class("has-zero-and-two-positive");
    }
    Ok(())
}

fn measure(case: &MeasureCase, cov: &mut Cov) -> CheckResult {
    if case.f32 {
        measure_t::<f32>(case, cov)
    } else {
        measure_t::<f64>(case, cov)
    }
}

/// OS-seeded constructor (`Categorical::new`): the same validity holds for whatever it draws.
fn check_os(case: &Case, cov: &mut Cov) -> CheckResult {
    let w: Vec<f64> = case.weights.iter().map(|r| r.0).collect();
    let mut cat = Categorical::<f64>::new(w.clone());
    check_probs(&w, &cat, 1)?;
    for _ in 0..50 {
        let idx = cat.sample();
        ensure!(idx < w.len(), "sample-range", "sample() = {idx} for {} categories", w.len());
        ensure!(cat.probs[idx] > 0.0, "sample-zero-prob u>0", "OS-seeded sampling returned zero-probability category {idx}");
    }
    cov.evals(50);
    if w.iter().filter(|x| **x == 0.0).count() >= 1 {
        cov.nontrivial(&crate::engine::fingerprint(&case.weights));
    }
    Ok(())
}

pub fn run(ctx: &mut Ctx) {
    ctx.rule = "weight vectors of length 1..64 (zeros anywhere, unnormalised, tiny/huge) x injected uniform variate (0, 1 ulp, 1-ulp, cdf boundaries +-2 ulp, random); non-trivial = >=1 zero and >=2 positive weights, or variate within 2 ulp of a cdf boundary; distinct by (type, weights, variate)".into();
    ctx.assume("SmallRng is xoshiro256++ and StandardUniform maps the top 53/24 bits (self-tested at start-up)");
    ctx.assume("weights are finite, non-negative, not all zero, sum does not overflow");
    let t = ctx.tier;
    ctx.section(
        "inject",
        "one (vector, variate) pair per case; oracle: range, positive probability, f64 cdf interval, probs/logp validity",
        t.pick(1_000_000, 40_000_000),
        16,
        strategy,
        check,
    );
    let max_grid = if t == crate::engine::Tier::Quick { 12 } else { 18 };
    ctx.section(
        "measure",
        "stratified grid of 2^8..2^18 injected variates per vector: monotone index, measure of each category = probability; plus 4000 seeded draws z-test",
        t.pick(3_000, 60_000),
        16,
        move || measure_strategy(max_grid),
        measure,
    );
    ctx.section(
        "os-seeded",
        "Categorical::new (OS entropy): validity of probs/logp and 50 draws in range with positive probability",
        t.pick(5_000, 200_000),
        16,
        strategy,
        check_os,
    );
}

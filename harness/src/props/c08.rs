//! C08 — chains of one sampler are driven by distinct random streams; within a chain the
//! acceptance generator and the proposal generator are never seeded identically.

use super::common::*;
use super::targets::{HTarget, Spec};
use crate::engine::num::R;
use crate::engine::{bx, fingerprint, no_panic, CheckResult, Cov, Ctx, Fail};
use crate::ensure;
use mini_mcmc::core::MarkovChain;
use mini_mcmc::distributions::{Gaussian2D, IsotropicGaussian, Proposal};
use mini_mcmc::hmc::HMC;
use mini_mcmc::metropolis_hastings::MetropolisHastings;
use mini_mcmc::nuts::NUTS;
use ndarray::{arr1, arr2};
use proptest::prelude::*;
use rand::rngs::SmallRng;
use rand::{RngCore, SeedableRng};
use rand_distr::{Distribution, Normal};
use serde::{Deserialize, Serialize};

pub fn seed_strategy() -> impl Strategy<Value = u64> {
    prop_oneof![
        2 => Just(0u64),
        1 => Just(1u64),
        1 => Just(42u64),
        5 => any::<u64>(),
        2 => (0u64..70).prop_map(|k| u64::MAX - k),
        // seeds with many trailing zero bits (collide under multiplicative per-chain offsets)
        3 => (40u32..64).prop_map(|k| 1u64 << k),
        1 => (1u64..64).prop_map(|k| k << 58),
    ]
}

/// A user-defined seedable proposal whose generator state and received seeds are observable.
#[derive(Clone, Debug)]
pub struct ObservableProposal {
    pub rng: SmallRng,
    pub seeds_received: Vec<u64>,
}
impl Proposal<f64, f64> for ObservableProposal {
    fn sample(&mut self, current: &[f64]) -> Vec<f64> {
        let n = Normal::new(0.0, 1.0).unwrap();
        current.iter().map(|x| x + n.sample(&mut self.rng)).collect()
    }
    fn logp(&self, _from: &[f64], _to: &[f64]) -> f64 {
        0.0
    }
    fn set_seed(mut self, seed: u64) -> Self {
        self.rng = SmallRng::seed_from_u64(seed);
        self.seeds_received.push(seed);
        self
    }
}

#[derive(Debug, Clone, Serialize, Deserialize)]
pub struct Case {
    /// the proposal prototype has already produced this many candidates before it is handed to
    /// the sampler (a proposal object that was used before is a legitimate input)
    #[serde(default)]
    pub proto_used: usize,
    /// 0 MH + IsotropicGaussian, 1 MH + observable user proposal, 2 HMC, 3 NUTS
    pub kind: u8,
    pub chains: usize,
    pub seeded: bool,
    pub seed: u64,
    pub proto_seed: u64,
    pub proto_seeded: bool,
    pub steps: usize,
    pub start: [R; 2],
    /// HMC only: 0 = the 2-d target, otherwise the dimension of a wide target (large batches)
    #[serde(default)]
    pub wide: usize,
}

fn strategy() -> BoxedStrategy<Case> {
    bx((
        0u8..4,
        prop_oneof![3 => 2usize..6, 2 => 6usize..20, 1 => 20usize..=64],
        any::<bool>(),
        seed_strategy(),
        any::<u64>(),
        any::<bool>(),
        1usize..6,
        (-2.0f64..2.0, -2.0f64..2.0, prop_oneof![2 => Just(0usize), 1 => 1usize..5], prop_oneof![12 => Just(0usize), 1 => 3usize..300, 1 => Just(64usize), 1 => Just(1024usize)]),
    )
        .prop_map(|(kind, chains, seeded, seed, proto_seed, proto_seeded, steps, (s0, s1, proto_used, wide))| (kind, chains, seeded, seed, proto_seed, proto_seeded, steps, (s0, s1), proto_used, wide))
        .prop_map(|(kind, chains, seeded, seed, proto_seed, proto_seeded, steps, start, proto_used, wide)| Case {
            wide,
            proto_used,
            kind,
            chains,
            seeded,
            seed,
            proto_seed,
            proto_seeded,
            steps,
            start: [R(start.0), R(start.1)],
        }))
}

fn peek(rng: &SmallRng) -> [u64; 2] {
    let mut r = rng.clone();
    [r.next_u64(), r.next_u64()]
}

fn pairwise_distinct<T: PartialEq + std::fmt::Debug>(v: &[T], sig: &str, what: &str) -> CheckResult {
    for i in 0..v.len() {
        for j in i + 1..v.len() {
            if v[i] == v[j] {
                return Err(Fail::new(sig, format!("{what}: chains {i} and {j} of {} coincide: {:?}", v.len(), v[i])));
            }
        }
    }
    Ok(())
}

/// No generator may be another one advanced by up to `len` outputs: streams that are offsets
/// into one sequence hand the same random numbers to two chains in any run longer than the lag.
fn no_stream_overlap(gens: &[SmallRng], len: u32, sig: &str, what: &str) -> CheckResult {
    let starts: std::collections::HashMap<(u64, u64), usize> = gens.iter().enumerate().map(|(j, g)| (peek(g), j)).map(|(g, j)| ((g[0], g[1]), j)).collect();
    for (i, g) in gens.iter().enumerate().take(4) {
        let mut r = g.clone();
        let mut prev = r.next_u64();
        for step in 1..len {
            let cur = r.next_u64();
            if let Some(j) = starts.get(&(prev, cur)) {
                ensure!(*j == i, sig, "{what}: the generator of chain {i} reaches the start state of chain {j}'s generator after {step} outputs: the chains consume the same random numbers");
            }
            prev = cur;
        }
    }
    Ok(())
}

fn check(c: &Case, cov: &mut Cov) -> CheckResult {
    let n = c.chains;
    let x0 = vec![c.start[0].0, c.start[1].0];
    let target = Gaussian2D {
        mean: arr1(&[0.0, 1.0]),
        cov: arr2(&[[4.0, 2.0], [2.0, 3.0]]),
    };
    let tag = if c.seeded { "seeded" } else { "unseeded" };
    match c.kind {
        0 => {
            let mut proto = IsotropicGaussian::<f64>::new(1.0);
            if c.proto_seeded {
                proto = proto.set_seed(c.proto_seed);
            }
            for _ in 0..c.proto_used {
                let _ = proto.sample(&[0.0, 0.0, 0.0]);
            }
            if c.proto_used > 0 {
                cov.class("proposal-prototype-used-before");
            }
            let build = || no_panic(|| {
                let s = MetropolisHastings::new(target.clone(), proto.clone(), vec![x0.clone(); n]);
                if c.seeded {
                    s.seed(c.seed)
                } else {
                    s
                }
            });
            let mut s = build().map_err(|m| Fail::new("construction-panic", format!("MetropolisHastings construction panicked (seed {}): {m}", c.seed)))?;
            // (i) the next proposals from the common state
            let firsts: Vec<Vec<u64>> = s.chains.iter().map(|ch| ch.proposal.clone().sample(&x0).iter().map(|v| v.to_bits()).collect()).collect();
            pairwise_distinct(&firsts, &format!("mh-proposal-noise-shared {tag}"), "first proposal from the common start state")?;
            // ... and so are the individual noise coordinates (a shared look-ahead buffer would
            // repeat single variates even if whole vectors differ)
            let mut coords: Vec<(usize, u64)> = vec![];
            for (i, ch) in s.chains.iter().enumerate() {
                let mut p = ch.proposal.clone();
                for _ in 0..3 {
                    for v in p.sample(&[0.0, 0.0]) {
                        coords.push((i, v.to_bits()));
                    }
                }
            }
            for a in 0..coords.len() {
                for b in a + 1..coords.len() {
                    ensure!(
                        coords[a].0 == coords[b].0 || coords[a].1 != coords[b].1,
                        &format!("mh-proposal-noise-shared {tag}"),
                        "chains {} and {} receive the identical proposal noise variate {}",
                        coords[a].0,
                        coords[b].0,
                        f64::from_bits(coords[a].1)
                    );
                }
            }
            // acceptance generators
            let acc: Vec<[u64; 2]> = s.chains.iter().map(|ch| peek(&ch.rng)).collect();
            pairwise_distinct(&acc, &format!("mh-acceptance-stream-shared {tag}"), "acceptance generator")?;
            no_stream_overlap(&s.chains.iter().map(|ch| ch.rng.clone()).collect::<Vec<_>>(), 1 << 11, &format!("mh-acceptance-stream-overlap {tag}"), "acceptance generators")?;
            // (iv) within a chain: the proposal generator is not in the state of the acceptance generator
            for (i, ch) in s.chains.iter().enumerate() {
                let normal = Normal::new(0.0f64, 1.0).unwrap();
                let mut r = ch.rng.clone();
                let from_acc: Vec<u64> = (0..2).map(|_| normal.sample(&mut r).to_bits()).collect();
                let from_prop: Vec<u64> = ch.proposal.clone().sample(&[0.0, 0.0]).iter().map(|v| v.to_bits()).collect();
                ensure!(from_acc != from_prop, &format!("mh-proposal-equals-acceptance-stream {tag}"), "chain {i}: the proposal noise is what the acceptance generator would produce (both generators in the same state)");
            }
            // (ii) trajectories
            let mut traj: Vec<Vec<u64>> = vec![vec![]; n];
            for _ in 0..c.steps {
                for (i, ch) in s.chains.iter_mut().enumerate() {
                    traj[i].extend(ch.step().iter().map(|v| v.to_bits()));
                }
            }
            // identical trajectories are only possible when every step was rejected in both chains
            let moved: Vec<bool> = traj.iter().map(|t| t.chunks(2).any(|p| p != [x0[0].to_bits(), x0[1].to_bits()])).collect();
            for i in 0..n {
                for j in i + 1..n {
                    ensure!(!(moved[i] && traj[i] == traj[j]), &format!("mh-trajectories-identical {tag}"), "chains {i} and {j} follow the identical trajectory from the common start");
                }
            }
        }
        1 => {
            let mut proto = ObservableProposal {
                rng: SmallRng::seed_from_u64(c.proto_seed),
                seeds_received: vec![],
            };
            if c.proto_seeded {
                proto = proto.set_seed(c.proto_seed ^ 0x55);
                proto.seeds_received.clear();
            }
            let s = no_panic(|| {
                let s = MetropolisHastings::new(target.clone(), proto.clone(), vec![x0.clone(); n]);
                if c.seeded {
                    s.seed(c.seed)
                } else {
                    s
                }
            })
            .map_err(|m| Fail::new("construction-panic", format!("MetropolisHastings construction panicked (seed {}): {m}", c.seed)))?;
            let states: Vec<[u64; 2]> = s.chains.iter().map(|ch| peek(&ch.proposal.rng)).collect();
            pairwise_distinct(&states, &format!("mh-proposal-noise-shared {tag}"), "state of the user proposal's generator")?;
            let acc: Vec<[u64; 2]> = s.chains.iter().map(|ch| peek(&ch.rng)).collect();
            pairwise_distinct(&acc, &format!("mh-acceptance-stream-shared {tag}"), "acceptance generator")?;
            no_stream_overlap(&s.chains.iter().map(|ch| ch.rng.clone()).collect::<Vec<_>>(), 1 << 11, &format!("mh-acceptance-stream-overlap {tag}"), "acceptance generators")?;
            no_stream_overlap(&s.chains.iter().map(|ch| ch.proposal.rng.clone()).collect::<Vec<_>>(), 1 << 11, &format!("mh-proposal-stream-overlap {tag}"), "user proposal generators")?;
            // seeds the library handed out: pairwise different, and never the acceptance seed
            let last_seeds: Vec<Option<u64>> = s.chains.iter().map(|ch| ch.proposal.seeds_received.last().copied()).collect();
            for i in 0..n {
                for j in i + 1..n {
                    if let (Some(a), Some(b)) = (last_seeds[i], last_seeds[j]) {
                        ensure!(a != b, &format!("mh-proposal-seed-reused {tag}"), "the library seeded the proposals of chains {i} and {j} with the same value {a}");
                    }
                }
            }
            for (i, ch) in s.chains.iter().enumerate() {
                ensure!(peek(&ch.proposal.rng) != peek(&ch.rng), &format!("mh-proposal-equals-acceptance-stream {tag}"), "chain {i}: proposal generator and acceptance generator are in the same state");
                for sd in &ch.proposal.seeds_received {
                    ensure!(
                        peek(&SmallRng::seed_from_u64(*sd)) != peek(&ch.rng),
                        &format!("mh-proposal-equals-acceptance-stream {tag}"),
                        "chain {i}: the library seeded the proposal with {sd}, which reproduces the chain's acceptance generator"
                    );
                    // ... nor any other chain's acceptance generator
                    for (j, other) in s.chains.iter().enumerate() {
                        ensure!(peek(&SmallRng::seed_from_u64(*sd)) != peek(&other.rng), &format!("mh-proposal-equals-acceptance-stream {tag}"), "proposal seed {sd} of chain {i} reproduces the acceptance generator of chain {j}");
                    }
                }
            }
        }
        2 => {
            // a 2-d correlated Gaussian, or (large batches) a wide product target
            let dim = if c.wide == 0 { 2 } else { c.wide };
            let spec = if c.wide == 0 {
                Spec::Gauss {
                    dim: 2,
                    mean: vec![R(0.0), R(0.0)],
                    prec: vec![R(1.0), R(0.3), R(0.3), R(2.0)],
                }
            } else {
                cov.class(if n * dim >= 4096 { "hmc-batch>=4096-entries" } else { "hmc-wide" });
                Spec::StudentT { dim, nu: R(5.0), scale: R(1.0) }
            };
            let x0: Vec<f64> = (0..dim).map(|i| x0[i % 2]).collect();
            let mut s = HMC::<f64, B64, HTarget>::new(HTarget::new(spec), vec![x0.clone(); n], 0.3, 3);
            if c.seeded {
                s = no_panic(|| s.set_seed(c.seed)).map_err(|m| Fail::new("construction-panic", format!("HMC::set_seed panicked: {m}")))?;
            }
            mini_mcmc::verif::hmc_trace_start();
            s.step();
            s.step();
            let tr = mini_mcmc::verif::hmc_trace_take();
            // no random number is consumed twice: all momentum entries of two consecutive steps
            // are pairwise different, and so are all uniforms
            let mut all: Vec<u64> = tr.iter().flat_map(|r| r.momenta.iter().map(|v| v.to_bits())).collect();
            let total = all.len();
            all.sort();
            all.dedup();
            // (a single coincidence among > 50000 variates is not evidence of reuse)
            ensure!(total - all.len() <= total / 50_000, &format!("hmc-momentum-reused-across-steps {tag}"), "momentum entries repeat across two consecutive HMC steps ({} distinct of {total})", all.len());
            let mut us2: Vec<u64> = tr.iter().flat_map(|r| r.uniforms.iter().map(|v| v.to_bits())).collect();
            let ut = us2.len();
            us2.sort();
            us2.dedup();
            ensure!(us2.len() == ut, &format!("hmc-uniform-shared {tag}"), "acceptance uniforms repeat across two consecutive HMC steps");
            let rec = &tr[0];
            let mom: Vec<Vec<u64>> = (0..n).map(|r| rec.momenta[r * dim..(r + 1) * dim].iter().map(|v| v.to_bits()).collect()).collect();
            pairwise_distinct(&mom, &format!("hmc-momentum-shared {tag}"), "momentum row")?;
            let us: Vec<u64> = rec.uniforms.iter().map(|v| v.to_bits()).collect();
            pairwise_distinct(&us, &format!("hmc-uniform-shared {tag}"), "acceptance uniform")?;
            // momenta and uniforms are not copies of one another's source values
            let pos = to_vec(&s.positions);
            let rows: Vec<Vec<u64>> = (0..n).map(|r| pos[r * dim..(r + 1) * dim].iter().map(|v| v.to_bits()).collect()).collect();
            let x0bits: Vec<u64> = x0.iter().map(|v| v.to_bits()).collect();
            let movedrows: Vec<&Vec<u64>> = rows.iter().filter(|r| **r != x0bits).collect();
            pairwise_distinct(&movedrows, &format!("hmc-rows-identical {tag}"), "row after one transition from the common start")?;
        }
        _ => {
            let spec = Spec::Gauss {
                dim: 2,
                mean: vec![R(0.0), R(0.0)],
                prec: vec![R(1.0), R(0.3), R(0.3), R(2.0)],
            };
            let mut s = NUTS::<f64, B64, HTarget>::new(HTarget::new(spec), vec![x0.clone(); n], 0.8);
            if c.seeded {
                s = no_panic(|| s.set_seed(c.seed)).map_err(|m| Fail::new("construction-panic", format!("NUTS::set_seed({}) panicked: {m}", c.seed)))?;
            }
            let gens: Vec<[u64; 2]> = s.verif_chains().iter().map(|ch| peek(&ch.verif_rng())).collect();
            pairwise_distinct(&gens, &format!("nuts-stream-shared {tag}"), &format!("NUTS chain generator (seed {})", c.seed))?;
            // no chain's generator may be another chain's generator advanced by a few thousand
            // outputs (streams that are offsets into one sequence overlap in long runs)
            {
                let starts: std::collections::HashMap<(u64, u64), usize> = gens.iter().enumerate().map(|(j, g)| ((g[0], g[1]), j)).collect();
                for (i, ch) in s.verif_chains().iter().enumerate().take(4) {
                    let mut r = ch.verif_rng();
                    let mut prev = r.next_u64();
                    for step in 1..(1u32 << 14) {
                        let cur = r.next_u64();
                        if let Some(j) = starts.get(&(prev, cur)) {
                            ensure!(
                                *j == i,
                                &format!("nuts-stream-overlap {tag}"),
                                "NUTS chain {i}'s generator reaches the start state of chain {j}'s generator after {step} outputs: the chains consume the same random numbers in long runs (seed {})",
                                c.seed
                            );
                        }
                        prev = cur;
                    }
                }
            }
            // one transition of a few chains: different trajectories
            let k = n.min(4);
            let mut after: Vec<Vec<u64>> = vec![];
            let mut moms: Vec<Vec<u64>> = vec![];
            for ch in s.verif_chains_mut().iter_mut().take(k) {
                ch.verif_set_epsilon(0.5);
                mini_mcmc::verif::nuts_trace_start();
                ch.step();
                let tr = mini_mcmc::verif::nuts_trace_take();
                moms.push(tr[0].mom_0.iter().map(|v| v.to_bits()).collect());
                after.push(tr[0].position_after.iter().map(|v| v.to_bits()).collect());
            }
            pairwise_distinct(&moms, &format!("nuts-stream-shared {tag}"), "NUTS momentum draw")?;
        }
    }
    cov.class(["mh-isotropic", "mh-user-proposal", "hmc", "nuts"][c.kind as usize]);
    cov.class(tag);
    if c.seed == 0 || c.seed.trailing_zeros() >= 40 {
        cov.class("seed-with-many-trailing-zero-bits");
    }
    if c.seed > u64::MAX - 100 {
        cov.class("seed-near-max");
    }
    cov.nontrivial(&(c.kind, c.seeded, n, c.seed));
    let _ = fingerprint(c);
    Ok(())
}

pub fn run(ctx: &mut Ctx) {
    ctx.rule = "n_chains 2..64 all started from one common state, seeded (seeds incl. 0, powers of two, values near u64::MAX) and unseeded construction; MH with the library's IsotropicGaussian and with a user-defined seedable proposal whose generator and received seeds are observable; HMC batches; NUTS; every case is non-trivial (n_chains >= 2, common start); distinct by (sampler, seeded?, n_chains, seed)".into();
    ctx.assume("distinctness of unseeded (OS-entropy) streams is probabilistic with collision probability ~2^-64 per pair");
    ctx.assume("Gibbs is excluded, as the property says");
    let t = ctx.tier;
    ctx.section("streams", "pairwise distinct proposal noise / momenta / acceptance draws across chains; proposal generator never in the state of an acceptance generator; seeds handed to user proposals pairwise distinct", t.pick(100_000, 3_000_000), 16, strategy, check);
}

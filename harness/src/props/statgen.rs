//! Sample-array generator shared by C11/C12/C13: the *structure* (sizes, data model per
//! parameter, location/scale) is a proptest value; the bulk numbers are a pure function of the
//! case's `data_seed` (harness PRNG), so cases stay small, shrink well and replay exactly.

use crate::engine::num::{Prng, R};
use crate::refs::stats::Chains;
use ndarray::Array3;
use proptest::prelude::*;
use serde::{Deserialize, Serialize};

#[derive(Debug, Clone, Serialize, Deserialize)]
pub struct ParamModel {
    /// 0 iid normal, 1 AR(1), 2 linear trend + noise, 3 chains with different means ("multimodal"),
    /// 4 chains with different scales, 5 few integer levels (many ties), 6 constant
    pub kind: u8,
    pub phi: R,
    pub loc: R,
    pub scale: R,
    /// size of chain-to-chain disagreement in units of `scale` (kinds 3,4) / trend slope (kind 2)
    pub spread: R,
}

#[derive(Debug, Clone, Serialize, Deserialize)]
pub struct ArrCase {
    pub chains: usize,
    pub draws: usize,
    pub params: Vec<ParamModel>,
    pub data_seed: u64,
}

pub fn param_model(allow_constant: bool) -> impl Strategy<Value = ParamModel> {
    let kind = if allow_constant {
        prop_oneof![4 => Just(0u8), 5 => Just(1u8), 2 => Just(2u8), 3 => Just(3u8), 1 => Just(4u8), 1 => Just(5u8), 1 => Just(6u8)].boxed()
    } else {
        prop_oneof![4 => Just(0u8), 5 => Just(1u8), 2 => Just(2u8), 3 => Just(3u8), 1 => Just(4u8), 1 => Just(5u8)].boxed()
    };
    let phi = prop_oneof![3 => -0.9f64..0.99, 1 => 0.9f64..0.99, 1 => -0.9f64..-0.5];
    let scale = prop_oneof![6 => Just(1.0f64), 4 => 0.01f64..100.0, 2 => Just(1e-3f64), 2 => Just(1e3f64), 1 => Just(1e-6f64), 1 => Just(1e6f64), 1 => Just(1e-9f64)];
    // |loc|/scale <= 100 (f32 conditioning, as the property's domain states)
    let locratio = prop_oneof![3 => Just(0.0f64), 3 => -3.0f64..3.0, 2 => -100.0f64..100.0, 1 => -5000.0f64..5000.0];
    let spread = prop_oneof![2 => Just(0.0f64), 3 => 0.0f64..3.0, 1 => 3.0f64..30.0];
    (kind, phi, scale, locratio, spread).prop_map(|(kind, phi, scale, lr, spread)| ParamModel {
        kind,
        phi: R(phi),
        loc: R(lr * scale),
        scale: R(scale),
        spread: R(spread),
    })
}

pub fn draws_strategy(max_long: usize) -> impl Strategy<Value = usize> {
    prop_oneof![
        3 => 4usize..10,
        3 => 10usize..60,
        2 => (5usize..100).prop_map(|x| 2 * x + 1),   // odd lengths
        3 => 190usize..212,                            // half-length straddles the 100-row switch
        2 => 212usize..600,
        1 => 600usize..=max_long,
    ]
}

pub fn arr_case(max_chains: usize, max_long: usize, allow_constant: bool) -> impl Strategy<Value = ArrCase> {
    let chains = prop_oneof![1 => Just(1usize), 4 => 2usize..5, 2 => 5usize..=max_chains];
    (chains, draws_strategy(max_long), 1usize..=8, any::<u64>())
        .prop_flat_map(move |(chains, draws, np, data_seed)| {
            (
                Just(chains),
                Just(draws),
                proptest::collection::vec(param_model(allow_constant), np),
                Just(data_seed),
            )
        })
        .prop_map(|(chains, draws, params, data_seed)| ArrCase {
            chains,
            draws,
            params,
            data_seed,
        })
}

/// one parameter's chains (f64 values that are exactly representable in f32)
pub fn gen_param(pm: &ParamModel, chains: usize, draws: usize, seed: u64) -> Chains {
    let mut rng = Prng::new(seed);
    let (loc, scale, spread, phi) = (pm.loc.0, pm.scale.0, pm.spread.0, pm.phi.0);
    let mut out = Vec::with_capacity(chains);
    for c in 0..chains {
        let mut v = Vec::with_capacity(draws);
        let chain_shift = match pm.kind {
            3 => spread * scale * (c as f64 - (chains as f64 - 1.0) / 2.0),
            _ => 0.0,
        };
        let chain_scale = match pm.kind {
            4 => scale * (1.0 + spread * c as f64 / chains.max(1) as f64),
            _ => scale,
        };
        let mut prev = rng.normal();
        for t in 0..draws {
            let z = match pm.kind {
                0 | 3 | 4 => rng.normal(),
                1 => {
                    // stationary AR(1) with unit marginal variance
                    if t == 0 {
                        prev
                    } else {
                        prev = phi * prev + (1.0 - phi * phi).sqrt() * rng.normal();
                        prev
                    }
                }
                2 => rng.normal() + spread * (t as f64 / draws as f64 - 0.5),
                5 => (rng.below(4) as f64) - 1.5,
                _ => 0.0,
            };
            let x = loc + chain_shift + chain_scale * z;
            v.push((x as f32) as f64);
        }
        out.push(v);
    }
    out
}

/// all parameters: per_param[p][chain][draw]
pub fn gen_all(case: &ArrCase) -> Vec<Chains> {
    case.params
        .iter()
        .enumerate()
        .map(|(p, pm)| {
            gen_param(
                pm,
                case.chains,
                case.draws,
                case.data_seed ^ (p as u64 + 1).wrapping_mul(0x9E37_79B9_7F4A_7C15),
            )
        })
        .collect()
}

pub fn to_array3(per_param: &[Chains]) -> Array3<f32> {
    let p = per_param.len();
    let c = per_param[0].len();
    let n = per_param[0][0].len();
    Array3::from_shape_fn((c, n, p), |(ci, ni, pi)| per_param[pi][ci][ni] as f32)
}

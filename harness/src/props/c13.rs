//! C13 — streaming trackers (ChainTracker / collect_rhat / MultiChainTracker) equal batch
//! statistics of the same draws; acceptance EMA recurrence and range.

use super::statgen::ParamModel;
use crate::engine::num::{Prng, R};
use crate::engine::{bx, fingerprint, no_panic, CheckResult, Cov, Ctx, Fail};
use crate::ensure;
use crate::refs::stats as rs;
use mini_mcmc::stats::{collect_rhat, ChainStats, ChainTracker, MultiChainTracker};
use proptest::prelude::*;
use serde::{Deserialize, Serialize};

#[derive(Debug, Clone, Serialize, Deserialize)]
pub struct Case {
    /// how a chain "moves": 0 all coordinates redrawn, 1 only a subset of the coordinates changes
    /// (coordinate-wise samplers; parameter 0 often stays), 2 every coordinate moves to the next
    /// representable f32 value (tiny but real moves)
    #[serde(default)]
    pub move_kind: u8,
    /// integer element types: lattice step multiplier (values reach +-2e5 when large)
    #[serde(default)]
    pub int_scale: u32,
    pub chains: usize,
    pub len: usize,
    pub params: Vec<ParamModel>,
    /// 0 f32, 1 f64, 2 i32, 3 u64
    pub etype: u8,
    /// probability that a chain repeats its previous state (a "rejection")
    pub stick: R,
    pub data_seed: u64,
}

fn pm() -> impl Strategy<Value = ParamModel> {
    let kind = prop_oneof![4 => Just(0u8), 4 => Just(1u8), 3 => Just(3u8), 1 => Just(4u8)];
    let scale = prop_oneof![3 => Just(1.0f64), 2 => 0.05f64..50.0, 1 => Just(1e-8f64), 1 => Just(1e-6f64), 1 => Just(3e-4f64), 1 => Just(1e6f64)];
    let locratio = prop_oneof![3 => Just(0.0f64), 3 => -3.0f64..3.0, 2 => -10.0f64..10.0];
    let spread = prop_oneof![2 => Just(0.0f64), 3 => 0.0f64..3.0, 1 => 3.0f64..10.0];
    (kind, -0.9f64..0.95, scale, locratio, spread).prop_map(|(kind, phi, scale, lr, spread)| ParamModel {
        kind,
        phi: R(phi),
        loc: R(lr * scale),
        scale: R(scale),
        spread: R(spread),
    })
}

fn strategy(max_len: usize) -> BoxedStrategy<Case> {
    let len = prop_oneof![4 => 2usize..12, 4 => 12usize..80, 2 => 80usize..600, 1 => 600usize..=max_len];
    bx((2usize..=16, len, 1usize..=8, 0u8..4, prop_oneof![Just(0.0f64), 0.05f64..0.9, Just(1.0f64)], any::<u64>(), (prop_oneof![2 => Just(1u32), 1 => Just(100u32), 1 => Just(8000u32)], prop_oneof![3 => Just(0u8), 2 => Just(1u8), 1 => Just(2u8)]))
        .prop_flat_map(|(chains, len, np, etype, stick, data_seed, (int_scale, move_kind))| {
            (Just(chains), Just(len), proptest::collection::vec(pm(), np), Just(etype), Just(stick), Just(data_seed), Just(int_scale), Just(move_kind))
        })
        .prop_map(|(chains, len, params, etype, stick, data_seed, int_scale, move_kind)| Case {
            move_kind,
            int_scale,
            chains,
            len,
            params,
            etype,
            stick: R(stick),
            data_seed,
        }))
}

/// states[chain][t][param], values exactly representable in the element type and in f32
fn gen_states(case: &Case) -> (Vec<Vec<Vec<f64>>>, Vec<Vec<f64>>) {
    let np = case.params.len();
    let integer = case.etype >= 2;
    let mut out = Vec::with_capacity(case.chains);
    let mut inits = Vec::with_capacity(case.chains);
    for c in 0..case.chains {
        let mut rng = Prng::new(case.data_seed ^ (c as u64 + 1).wrapping_mul(0xA24B_AED4_963E_E407));
        let mut ar_prev: Vec<f64> = (0..np).map(|_| rng.normal()).collect();
        let draw = |rng: &mut Prng, ar_prev: &mut Vec<f64>| -> Vec<f64> {
            (0..np)
                .map(|p| {
                    let pm = &case.params[p];
                    let z = if pm.kind == 1 {
                        ar_prev[p] = pm.phi.0 * ar_prev[p] + (1.0 - pm.phi.0 * pm.phi.0).sqrt() * rng.normal();
                        ar_prev[p]
                    } else {
                        rng.normal()
                    };
                    let shift = if pm.kind == 3 {
                        pm.spread.0 * pm.scale.0 * (c as f64 - (case.chains as f64 - 1.0) / 2.0)
                    } else {
                        0.0
                    };
                    let sc = if pm.kind == 4 { pm.scale.0 * (1.0 + pm.spread.0 * c as f64 / case.chains as f64) } else { pm.scale.0 };
                    let mut x = pm.loc.0 + shift + sc * z;
                    if integer {
                        // integer element types: a lattice with enough resolution
                        // (exactly representable in f32 up to 2^24 in magnitude)
                        let k = case.int_scale.max(1) as f64;
                        x = ((x / pm.scale.0).clamp(-25.0, 25.0) * 8.0 * k).round();
                        if case.etype == 3 {
                            x += 250.0 * k; // u64: keep non-negative
                            x = x.max(0.0);
                        }
                    }
                    (x as f32) as f64
                })
                .collect()
        };
        let init = draw(&mut rng, &mut ar_prev);
        let mut states: Vec<Vec<f64>> = Vec::with_capacity(case.len);
        let mut prev = init.clone();
        for _ in 0..case.len {
            let s = if rng.unif() < case.stick.0 {
                prev.clone()
            } else {
                let fresh = draw(&mut rng, &mut ar_prev);
                match case.move_kind {
                    1 if np >= 2 => {
                        // a coordinate-wise move: parameter 0 (and possibly others) keeps its value
                        let keep_until = 1 + rng.below(np as u64 - 1) as usize;
                        (0..np).map(|p| if p < keep_until { prev[p] } else { fresh[p] }).collect()
                    }
                    2 if !integer => prev.iter().map(|v| crate::engine::num::next_up32(*v as f32) as f64).collect(),
                    2 => prev.iter().map(|v| v + 1.0).collect(),
                    _ => fresh,
                }
            };
            prev = s.clone();
            states.push(s);
        }
        inits.push(init);
        out.push(states);
    }
    (out, inits)
}

trait Elem: num_traits::ToPrimitive + num_traits::FromPrimitive + num_traits::Num + Clone + PartialOrd + 'static {
    fn of(x: f64) -> Self;
}
impl Elem for f32 {
    fn of(x: f64) -> Self {
        x as f32
    }
}
impl Elem for f64 {
    fn of(x: f64) -> Self {
        x
    }
}
impl Elem for i32 {
    fn of(x: f64) -> Self {
        x as i32
    }
}
impl Elem for u64 {
    fn of(x: f64) -> Self {
        x as u64
    }
}

fn checkpoints(len: usize) -> Vec<usize> {
    let mut v: Vec<usize> = (1..=len.min(64)).collect();
    let mut k = 96usize;
    while k < len {
        v.push(k);
        k = k * 3 / 2;
    }
    if len > 64 {
        v.push(len);
    }
    v
}

fn check_t<T: Elem>(case: &Case, cov: &mut Cov) -> CheckResult {
    let (states, inits) = gen_states(case);
    let np = case.params.len();
    let nc = case.chains;
    let eps = f32::EPSILON as f64;
    // scale of the values actually fed (integer lattices differ from the model's loc/scale)
    let mut loc2: Vec<f64> = vec![0.0; np];
    let mut sc2: Vec<f64> = vec![0.0; np];
    for p in 0..np {
        let all: Vec<f64> = states.iter().flat_map(|ch| ch.iter().map(move |s| s[p])).collect();
        let m = rs::mean(&all);
        loc2[p] = m * m;
        sc2[p] = all.iter().map(|x| (x - m) * (x - m)).sum::<f64>() / all.len() as f64;
    }

    let mut trackers: Vec<ChainTracker> = (0..nc)
        .map(|c| {
            let init: Vec<T> = inits[c].iter().map(|x| T::of(*x)).collect();
            ChainTracker::new(np, &init)
        })
        .collect();
    let mut multi = MultiChainTracker::new(nc, np);
    let cps = checkpoints(case.len);
    let mut cp_i = 0;
    let mut prev_p: Vec<f32> = vec![f32::NAN; nc];
    let mut prev_multi_p = f32::NAN;
    let mut saw = (false, false);
    for t in 0..case.len {
        let mut flat: Vec<T> = Vec::with_capacity(nc * np);
        for c in 0..nc {
            let x: Vec<T> = states[c][t].iter().map(|v| T::of(*v)).collect();
            flat.extend(x.iter().cloned());
            no_panic(|| trackers[c].step(&x))
                .map_err(|m| Fail::new("tracker-panic", format!("ChainTracker::step panicked: {m}")))?
                .map_err(|e| Fail::new("tracker-error", format!("ChainTracker::step returned an error: {e}")))?;
            let st = trackers[c].stats();
            let p = st.p_accept;
            ensure!((0.0..=1.0).contains(&p), "paccept-range", "chain {c} after {} updates: p_accept = {p}", t + 1);
            let prev_state = if t == 0 { &inits[c] } else { &states[c][t - 1] };
            let ind = (states[c][t] != *prev_state) as i32 as f32;
            if ind > 0.5 {
                saw.0 = true
            } else {
                saw.1 = true
            }
            if t >= 1 {
                let want = 0.99f32 * prev_p[c] + 0.01f32 * ind;
                ensure!(
                    (p - want).abs() <= 1e-6,
                    "paccept-recurrence",
                    "chain {c} update {}: p_accept = {p}, expected 0.99*{} + 0.01*{ind} = {want}",
                    t + 1,
                    prev_p[c]
                );
            }
            prev_p[c] = p;
        }
        no_panic(|| multi.step(&flat))
            .map_err(|m| Fail::new("tracker-panic", format!("MultiChainTracker::step panicked: {m}")))?
            .map_err(|e| Fail::new("tracker-error", format!("MultiChainTracker::step returned an error: {e}")))?;
        ensure!((0.0..=1.0).contains(&multi.p_accept), "paccept-range", "multi tracker p_accept = {}", multi.p_accept);
        if t >= 1 {
            let mut want = prev_multi_p;
            for c in 0..nc {
                let ind = (states[c][t] != states[c][t - 1]) as i32 as f32;
                want = 0.99f32 * want + 0.01f32 * ind;
            }
            ensure!(
                (multi.p_accept - want).abs() <= 1e-5,
                "paccept-recurrence-multi",
                "multi tracker update {}: p_accept = {}, expected {want}",
                t + 1,
                multi.p_accept
            );
        }
        prev_multi_p = multi.p_accept;

        let n = t + 1;
        if cp_i < cps.len() && cps[cp_i] == n {
            cp_i += 1;
            cov.evals(1);
            let nf = n as f64;
            let stats: Vec<ChainStats> = trackers.iter().map(|tr| tr.stats()).collect();
            for c in 0..nc {
                ensure!(stats[c].n == n as u64, "tracker-count", "chain {c}: tracker reports n = {} after {n} updates", stats[c].n);
                for p in 0..np {
                    let xs: Vec<f64> = states[c][..n].iter().map(|s| s[p]).collect();
                    let m = rs::mean(&xs);
                    let tol_m = eps * (2.0 + 2.0 * nf) * (loc2[p].sqrt() + sc2[p].sqrt()) + 1e-30;
                    let got_m = stats[c].mean[p] as f64;
                    cov.track_max("mean_dev_over_tol", (got_m - m).abs() / tol_m);
                    ensure!(
                        (got_m - m).abs() <= tol_m,
                        "tracker-mean",
                        "chain {c} param {p} after {n} updates: mean {got_m} vs batch mean {m} (tol {tol_m:e})"
                    );
                    if n >= 2 {
                        let v = rs::var_unbiased(&xs);
                        let tol_v = eps * (64.0 + 8.0 * nf) * (loc2[p] + sc2[p]) + 1e-5 * v + 1e-30;
                        let got_v = stats[c].sm2[p] as f64;
                        cov.track_max("var_dev_over_tol", (got_v - v).abs() / tol_v);
                        ensure!(
                            (got_v - v).abs() <= tol_v,
                            "tracker-variance",
                            "chain {c} param {p} after {n} updates: variance {got_v} vs unbiased batch variance {v} (tol {tol_v:e})"
                        );
                    }
                }
            }
            if n >= 2 {
                let refs: Vec<&ChainStats> = stats.iter().collect();
                let got = no_panic(|| collect_rhat(&refs))
                    .map_err(|m| Fail::new("tracker-panic", format!("collect_rhat panicked: {m}")))?;
                let got_multi = no_panic(|| multi.rhat())
                    .map_err(|m| Fail::new("tracker-panic", format!("MultiChainTracker::rhat panicked: {m}")))?
                    .map_err(|e| Fail::new("tracker-error", format!("MultiChainTracker::rhat error: {e}")))?;
                ensure!(got.len() == np && got_multi.len() == np, "rhat-shape", "rhat lengths {} / {} for {np} params", got.len(), got_multi.len());
                for p in 0..np {
                    let chains: rs::Chains = (0..nc).map(|c| states[c][..n].iter().map(|s| s[p]).collect()).collect();
                    let want = rs::classical_rhat(&chains);
                    let w: f64 = chains.iter().map(|c| rs::var_unbiased(c)).sum::<f64>() / nc as f64;
                    // relative error of the streamed variances drives the error of the ratio
                    let relw = eps * (64.0 + 8.0 * nf) * (loc2[p] + sc2[p]) / w.max(1e-300);
                    if !(want.is_finite()) || relw > 0.05 || !(w > 0.0) {
                        cov.class("rhat-ill-conditioned-skip");
                        continue;
                    }
                    let tol = 1e-5 + 2.0 * relw;
                    cov.class("rhat-compared");
                    let g = got[p] as f64;
                    let gm = got_multi[p] as f64;
                    cov.track_max("rhat_dev_over_tol", ((g - want) / want).abs() / tol);
                    if ((g - want) / want).abs() > tol {
                        return Err(Fail::new(
                            if np >= 2 { "collect-rhat-value params>=2" } else { "collect-rhat-value" },
                            format!("param {p} of {np}, {nc} chains, {n} updates: collect_rhat = {g}, classical sqrt(var+/W) = {want}, MultiChainTracker = {gm}"),
                        ));
                    }
                    ensure!(
                        ((gm - want) / want).abs() <= tol,
                        "multi-rhat-value",
                        "param {p} of {np}, {nc} chains, {n} updates: MultiChainTracker::rhat = {gm}, classical = {want}"
                    );
                    ensure!(
                        ((gm - g) / want).abs() <= 2.0 * tol,
                        "rhat-trackers-disagree",
                        "param {p}: collect_rhat {g} vs MultiChainTracker {gm}"
                    );
                }
            }
        }
    }
    cov.class(match case.etype {
        0 => "f32",
        1 => "f64",
        2 => "i32",
        _ => "u64",
    });
    if saw.0 && saw.1 {
        cov.class("indicator-both-values");
    }
    let distinct_means = case.params.iter().any(|p| p.kind == 3 && p.spread.0 > 0.1);
    if np >= 2 && nc >= 3 && distinct_means {
        cov.nontrivial_u64(fingerprint(case));
    }
    Ok(())
}

pub fn check(case: &Case, cov: &mut Cov) -> CheckResult {
    match case.etype {
        0 => check_t::<f32>(case, cov),
        1 => check_t::<f64>(case, cov),
        2 => check_t::<i32>(case, cov),
        _ => check_t::<u64>(case, cov),
    }
}

pub fn run(ctx: &mut Ctx) {
    ctx.rule = "update histories of length 2..5000, 2..16 chains, 1..8 params, element types f32/f64/i32/u64, |loc|/scale <= 10, repeated states with probability `stick`; every prefix <= 64 and geometrically spaced longer ones is compared with f64 batch statistics; non-trivial = >=2 params and >=3 chains with distinct means; distinct by case fingerprint".into();
    ctx.assume("tolerance model eps32*(64+8n)*(loc^2+scale^2) for streamed f32 second moments (worst-case linear accumulation: constant inputs round systematically), 2*eps32*n*(|loc|+scale) for means; observed maxima in evidence; R-hat compared where that error is < 5% of W");
    ctx.assume("first value of p_accept is not fixed by the statement: only the range and the recurrence after the first update are checked");
    let t = ctx.tier;
    let max_len = if t == crate::engine::Tier::Quick { 2000 } else { 5000 };
    ctx.section(
        "trackers",
        "ChainTracker::stats / collect_rhat / MultiChainTracker::rhat vs batch statistics at every checkpoint; p_accept range + EMA recurrence",
        t.pick(25_000, 800_000),
        16,
        move || strategy(max_len),
        check,
    );
}

#!/bin/bash
# usage: run_seeded.sh <name> [property ids...]   applies /verif/seeded/<name>/patch.diff to /repo, runs the quick
# checks of the given properties (default: the one in meta.json), reverts /repo, prints the outcome.
set -u
NAME=$1; shift
REPO=${REPO:-/repo}
VERIF=${VERIF:-/verif}
D=/verif/seeded/$NAME
PIDS="$@"
[ -z "$PIDS" ] && PIDS=$(python3 -c "import json;print(json.load(open('$D/meta.json'))['breaks_property'])")
cd $REPO
if [ -n "$(git status --porcelain --untracked-files=no)" ]; then echo "$REPO not clean"; exit 2; fi
git apply "$D/patch.diff" || { echo "$NAME: patch does not apply"; exit 2; }
for P in $PIDS; do
  OUT=$(cd $VERIF && VERIF_SEED=${VERIF_SEED:-0} ./check $P quick 2>/dev/null)
  RC=$?
  SIG=$(echo "$OUT" | grep -m1 "^FAIL" | sed 's/.*sig=\[\([^]]*\)\].*/\1/')
  echo "$NAME vs $P: exit=$RC ${SIG:+sig=[$SIG]}"
  python3 - "$D/meta.json" "$P" "$RC" "$SIG" <<'PY'
import json,sys
f,p,rc,sig=sys.argv[1:5]
m=json.load(open(f))
d=m.get("detected_by") or {}
d[p]={"quick_exit":int(rc),"signature":sig} if int(rc)==1 else {"quick_exit":int(rc),"signature":None}
m["detected_by"]=d
json.dump(m,open(f,"w"),indent=1)
PY
done
git -C $REPO checkout -- .

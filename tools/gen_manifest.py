#!/usr/bin/env python3
"""Generates /verif/MANIFEST.json from the table below (keeps the file valid and uniform)."""
import json, os, subprocess
HERE = os.path.dirname(os.path.dirname(os.path.abspath(__file__)))

# id -> (technique, level text, level note, design ref)
EXPL = "Generated-input search against an explicit oracle; exploration, not proof: it shows the property held on every generated case and reports how many were non-trivial. "
CHECKS = {
 "C01": ("proptest scripted (log p, log q) quadruples + injected acceptance draw (crafted xoshiro state) vs the stated rule; exact acceptance probabilities of the real step() by bisection over representable u on finite kernels (detailed balance, stationarity as matrix identities)",
         EXPL + "Injection makes each step's decision a pure function the oracle predicts exactly, including u = 0, 1 ulp, exp(ratio)+-1 ulp, exact ties, +-inf/NaN log-values and all state/float type combinations; finite kernels measure A(x,y) of the real code to 2^-53.",
         "Decision compared only where the stated grouping, the alternative association and an f64 evaluation agree (else counted ambiguous); trusts the xoshiro crafting (self-tested).",
         "DESIGN.md §5 C01"),
 "C02": ("proptest HMC steps (targets, step sizes incl. unstable, L 0..64, batches, three precision combos, histories with rejections) traced through the verif hook and compared with an independent f64 velocity-Verlet + Metropolis reference; metamorphic row-independence (poison rows, bitwise) and time-reversal checks with injected momenta/uniforms",
         EXPL + "The hook exposes (or injects) the momenta and uniforms each step consumed, so the proposal and the accept decision of every row become predictable; tolerances are derived from the measured sensitivity of the reference trajectory.",
         "Closed-form gradients of the harness targets are the trusted base; ill-conditioned (chaotic) rows are checked structurally only (old-or-proposed bitwise, decision).",
         "DESIGN.md §5 C02"),
 "C03": ("proptest NUTS transitions (forced step sizes incl. diverging / immediately U-turning ones, real warm-up runs, direct calls of build_tree/stop_criterion/leapfrog through verif wrappers) traced through the verif hook and compared with an independent f64 implementation of Hoffman-Gelman Algorithm 6: structure of every doubling (layer A), eligibility of the new state (layer B), exact selection by replaying the chain's generator (layer C)",
         EXPL + "Layer A/B need no assumption about random draws (they rebuild the tree from the traced momentum, slice level, step size and directions); layer C additionally replays a clone of the chain's generator in Algorithm 6's draw order and checks the selected point and the generator's final position.",
         "Decisions whose margin is below 2e4*eps*(leapfrog steps) are counted ambiguous; trees with NaN-energy leaves are excluded from the acceptance-statistic comparison; layer C trusts Algorithm 6's draw order.",
         "DESIGN.md §5 C03"),
 "C04": ("proptest histories of run() calls on one NUTSChain (warm-up lengths, re-opened warm-up, leading run(1,0)), every traced transition compared with a one-step-ahead f64 dual-averaging reference; bitwise freeze checks; independent implementation of the initial step-size heuristic; acceptance-statistic calibration runs",
         EXPL + "The reference is driven by the acceptance statistic each transition itself reported, so the recurrence is checked at every step of every history; freezing is a bitwise relation.",
         "An evaluation budget in the harness target bounds the work (the library has no tree-depth cap); after exhaustion the rest of a history is skipped. Shrinkage point of a re-opened warm-up: ln(10 eps0) or ln(10 current eps) accepted.",
         "DESIGN.md §5 C04"),
 "C05": ("proptest histories of single-chain Gibbs steps with a recording Conditional, order-agnostic sweep model; exact one-step kernel by enumerating scripted conditional outcomes on small joint tables (pi P = pi)",
         EXPL + "The recording conditional sees every call (index, given state) the library makes; the kernel section turns 'leaves the joint invariant' into a matrix identity checked to 1e-12.",
         "Scan order is not fixed by the statement: any permutation accepted.",
         "DESIGN.md §5 C05"),
 "C06": ("proptest sampler configurations (MH symmetric / asymmetric / discrete, Gibbs, HMC, NUTS; f32/f64) on targets with closed-form moments; 48-64 independent chains started from exact target draws; z-tests with between-chain standard errors at |z| <= 6.5 and confirm-by-rerun (4x work, fresh seeds, same sign)",
         EXPL + "This is the only check that sees wrong draw distributions (momentum variance, slice level, selection probabilities, Hastings correction) that the transition-level oracles take as given.",
         "Statistical: biases below a few percent of a posterior sd are not detectable; 'for all seeds/targets' is sampled.",
         "DESIGN.md §5 C06"),
 "C07": ("proptest configurations (sampler, seed incl. wrapping ones, chains, pool sizes 1..16, 0..3 concurrent companion samplers, progress on/off, spinning/yielding targets); differential oracle: every repetition of a freshly built sampler is bitwise equal to the first; different seeds differ; panics (seed overflow) are violations",
         EXPL + "Each repetition rebuilds the sampler from the same inputs (the MH proposal prototype is sometimes left unseeded), so hidden global or OS-seeded state shows up as a bitwise difference.",
         "Thread schedules are perturbed (pool size, companions, yields), not enumerated. Built with overflow checks on, as a user's debug build.",
         "DESIGN.md §5 C07"),
 "C08": ("proptest (sampler, n_chains 2..64, seeded/unseeded, seeds incl. 0 and powers of two) with all chains started from one state; oracles: pairwise distinct proposal noise / generator states / momenta / uniforms, proposal generator never in an acceptance generator's state, seeds handed to an observable user proposal pairwise distinct",
         EXPL + "Generator states are compared directly (next outputs of clones), so sharing is detected without statistics.",
         "Unseeded distinctness is probabilistic (2^-64 per pair). Gibbs excluded by the property.",
         "DESIGN.md §5 C08"),
 "C09": ("proptest histories of run() calls on user-defined counting chains (model = counter) under varying rayon pool sizes; twin-sampler differential checks for MH/Gibbs (continuation, burn-in suffix, manual stepping); HMC rows vs traced positions with injected randomness; NUTS rows vs transition trace, prefix consistency, multi-chain runner vs stand-alone chains",
         EXPL + "Counter chains make every entry of the returned array predictable exactly (chain id and transition count), for all (n_collect, n_discard) incl. 0 and for sequences of calls.",
         "HMC continuation is compared under injected momenta/uniforms so it is independent of the generator in use.",
         "DESIGN.md §5 C09"),
 "C10": ("proptest progress-mode runs in watchdog-supervised child processes: user chains with speed profiles and 1..48 chains (counter model + RunStats oracle), identically seeded twins run vs run_progress for MH/Gibbs/HMC/NUTS in all {f32,f64}^2 precision combinations, run_chain_progress with the receiver dropped before/during/never",
         EXPL + "Termination is observed under a per-case watchdog with confirm-by-rerun (a confirmed hang is the failing observation of this property); draws and diagnostics are compared bitwise.",
         "Liveness is explored over generated completion orders, not proved; OS schedule not owned.",
         "DESIGN.md §5 C10"),
 "C11": ("proptest sample arrays (structure generated, bulk from seeded PRNG) vs independent f64 split-R-hat reference; metamorphic relations (affine, permutation, cross-parameter bitwise, separation monotone/unbounded); NaN/summary fuzzing of basic_stats and RunStats; layout independence (Fortran-order, permuted, strided views)",
         EXPL + "Covers odd lengths, the 100-row switch, multimodal/trending/constant chains, NaN summaries of every length 1..256.",
         "Within-half variance divisor (n or n-1) not fixed by the statement: both accepted; |loc|/scale up to 5000; relative tolerance 1e-4*(1+|loc|/scale/10) calibrated on the pinned tree.",
         "DESIGN.md §5 C11"),
 "C12": ("proptest sample arrays vs independent f64 Geyer reference with a monotone interval oracle in tau space; both autocovariance paths by construction (half-lengths 94..108 sweep), metamorphic relations (reversal, permutation, affine), ESS/N calibration on iid and AR(1); MultiChainTracker::stats(sample) vs RunStats::from(sample) for any tracker history",
         EXPL + "The interval oracle is sound because tau is monotone in every autocorrelation; it needs no ambiguity skipping.",
         "f32 error model of the autocorrelation: +-2e-5*(1+(loc/scale)^2/100); divisor n or n-1 accepted.",
         "DESIGN.md §5 C12"),
 "C13": ("proptest update histories fed to ChainTracker / collect_rhat / MultiChainTracker, compared with f64 batch statistics at every prefix <= 64 and geometric checkpoints; EMA recurrence of p_accept",
         EXPL + "History-as-value: every prefix is an observation point, so off-by-one in n, n/(n-1), first-update handling and the R-hat denominators are visible for every parameter count.",
         "Tolerance eps32*(64+8n)*(loc^2+scale^2) (worst-case linear accumulation); R-hat compared where that is < 5% of W; first p_accept value unconstrained.",
         "DESIGN.md §5 C13"),
 "C14": ("proptest histories on bounded-support / NaN-region targets: MH with injected u in (0,1) and wide proposals, HMC with step sizes up to overflow (injected and natural momenta), NUTS with forced step sizes up to overflow and real runs; oracle after every step: finite coordinates, finite closed-form log-density, bad candidates leave the state bitwise unchanged, no panic, returns (watchdog)",
         EXPL + "Candidates are learnt from proposal clones / the trace hook, so 'the candidate was bad' is known exactly and the state must be bitwise the old one.",
         "u = 0 excepted as the property says; NUTS work bounded by the harness's evaluation budget.",
         "DESIGN.md §5 C14"),
 "C15": ("proptest means/SPD covariances/points/batches vs closed-form f64 densities and gradients (forward-error-bound tolerances); quadrature of exp(logp); seeded sample moments z-test",
         EXPL + "Closed forms are written from the documentation, gradients are analytic (no autodiff), and the proposal density is additionally integrated numerically, independent of the closed form.",
         "Tensor-based targets are compared at f32 accuracy (Tensor::from_floats stores f32 constants on every backend, as the property's domain says).",
         "DESIGN.md §5 C15"),
 "C16": ("proptest generated weight vectors x injected uniform variate (crafted xoshiro state), f64 inverse-CDF reference + variate-grid measure check",
         EXPL + "Every boundary class of the uniform variate (0, 1 ulp, 1-ulp, +-2 ulp around each cumulative boundary) is injected into the real sample() for weight vectors with zeros at any position.",
         "Trusts that SmallRng is xoshiro256++ with the top-bits float conversion (self-tested at start-up); weights finite, non-negative, not all zero.",
         "DESIGN.md §5 C16"),
 "C17": ("proptest shapes/types/special values/paths; round trip through the csv, arrow-ipc and parquet readers; fault paths (missing dir, directory, /dev/full)",
         EXPL + "Bitwise cell comparison with pairwise distinct values makes any index/axis mix-up visible; all zero-extent shapes and both entry points are generated.",
         "Readers are the same crate versions as the writers; an Err on a writable path is accepted (statement constrains successes only).",
         "DESIGN.md §5 C17"),
 "C18": ("proptest (n, d, seed) incl. 0 extents and seeds near u64::MAX: bitwise purity / prefix / seed-sensitivity oracles; pooled distribution tests (moments, KS, lag-1 correlations) at p ~ 1e-10; far-tail counts over 2.6e9 (quick) / 7.8e10 (thorough) seeded draws; purity inside rayon pools of 1..16 threads and across threads",
         EXPL + "Purity and prefix are exact bitwise relations; the distribution clause is a calibrated statistical test.",
         "Statistical thresholds |z| <= 6.5, KS lambda <= 3.5; OS-seeded init tested at the same thresholds.",
         "DESIGN.md §5 C18"),
}
NOT_YET = {}

def main():
    props = [json.loads(l) for l in open(os.path.join(HERE, "properties.jsonl"))]
    ids = [p["id"] for p in props]
    commits = subprocess.run(["git", "-C", "/repo", "log", "--format=%h %s", "de46b49..HEAD"], capture_output=True, text=True).stdout.strip().splitlines()
    hook_commits = [c.split()[0] for c in commits if c.split(" ", 1)[1].startswith("verif hooks")]
    man = {
        "version": 1,
        "setup_cmd": "./check --build",
        "hooks": {
            "guard": "cargo feature `verif` of mini-mcmc (default off)",
            "enable": "the harness depends on mini-mcmc by path (/repo) with features [\"verif\",\"csv\",\"arrow\",\"parquet\"]; every ./check run does `cargo build --release --offline` in /verif/harness, which recompiles /repo's current working tree",
            "baseline_off_cmd": "cd /repo && cargo nextest run --workspace --no-fail-fast --tool-config-file pb:/w/lib/nextest.toml --profile pb --test-threads 8 --offline || cargo test --workspace --no-fail-fast --offline",
            "source_commits": hook_commits,
            "add_only": True,
        },
        "engines": [
            {"name": "mcmc-verif", "path": "harness", "serves_properties": sorted(CHECKS.keys()),
             "kind_free_text": "Rust binary: proptest 1.11 TestRunner (fixed ChaCha seed from VERIF_SEED, no persistence) over serde case structs, independent f64 reference models, crafted-RNG injection, replay files"},
            {"name": "libfuzzer-targets", "path": "fuzz", "serves_properties": ["C01", "C11", "C12", "C13", "C16", "C17"],
             "kind_free_text": "cargo-fuzz crate (targets mh_step, stats, categorical, io) run by fuzz/run_fuzz.sh in the thorough tier: bytes decoded with arbitrary::Unstructured into the same case structs, the same oracle functions as the proptest sections inside the target, failures written as replay files and re-confirmed through the release harness"},
        ],
        "checks": [],
        "not_applicable": [],
        "notes": "exit 0 = held on everything explored, exit 1 + VIOLATION line, exit 2 = infrastructure problem (never reported as a violation). Known findings: /verif/known_findings.json.",
    }
    for pid in ids:
        if pid in CHECKS:
            tech, text, note, ref = CHECKS[pid]
            man["checks"].append({
                "property_id": pid,
                "quick_cmd": f"./check {pid} quick",
                "thorough_cmd": f"./check {pid} thorough",
                "evidence_file": f"/verif/evidence/{pid}.json",
                "replay_cmd_template": f"./check {pid} --replay {{path}}",
                "engine": "mcmc-verif",
                "level_claimed": {"category": "exploration", "text": text, "design_ref": ref},
                "level_note": note,
                "technique": tech,
            })
        else:
            man["not_applicable"].append({"property_id": pid, "reason": NOT_YET.get(pid, "check not implemented yet (work in progress; planned in DESIGN.md §5)")})
    json.dump(man, open(os.path.join(HERE, "MANIFEST.json"), "w"), indent=1)
    print("wrote MANIFEST.json with", len(man["checks"]), "checks")

if __name__ == "__main__":
    main()

#!/usr/bin/env python3
"""Generates /verif/MANIFEST.json from the table below (keeps the file valid and uniform)."""
import json, os, subprocess
HERE = os.path.dirname(os.path.dirname(os.path.abspath(__file__)))

# id -> (technique, level text, level note, design ref)
CHECKS = {
 "C16": ("proptest generated weight vectors x injected uniform variate (crafted xoshiro state), f64 inverse-CDF reference + variate-grid measure check",
         "Generated-input search: every representable boundary class of the uniform variate (0, 1 ulp, 1-ulp, +-2 ulp around each cumulative boundary) is injected into the real sample() for generated weight vectors with zeros at any position; oracle = validity of stored probabilities, bitwise logp, positive probability and f64 CDF interval of the returned index, measure of each category over a stratified variate grid. Exploration, not proof.",
         "Trusts that SmallRng is xoshiro256++ with the top-bits float conversion (self-tested at start-up); weights finite, non-negative, not all zero.",
         "DESIGN.md §5 C16"),
}
NOT_YET = {}

def main():
    props = [json.loads(l) for l in open(os.path.join(HERE, "properties.jsonl"))]
    ids = [p["id"] for p in props]
    commits = subprocess.run(["git", "-C", "/repo", "log", "--format=%h %s", "de46b49..HEAD"], capture_output=True, text=True).stdout.strip().splitlines()
    hook_commits = [c.split()[0] for c in commits if c.split(" ", 1)[1].startswith("verif hooks")]
    man = {
        "version": 1,
        "setup_cmd": "./check --build",
        "hooks": {
            "guard": "cargo feature `verif` of mini-mcmc (default off)",
            "enable": "the harness depends on mini-mcmc by path (/repo) with features [\"verif\",\"csv\",\"arrow\",\"parquet\"]; every ./check run does `cargo build --release --offline` in /verif/harness, which recompiles /repo's current working tree",
            "baseline_off_cmd": "cd /repo && cargo nextest run --workspace --no-fail-fast --tool-config-file pb:/w/lib/nextest.toml --profile pb --test-threads 8 --offline || cargo test --workspace --no-fail-fast --offline",
            "source_commits": hook_commits,
            "add_only": True,
        },
        "engines": [
            {"name": "mcmc-verif", "path": "harness", "serves_properties": sorted(CHECKS.keys()),
             "kind_free_text": "Rust binary: proptest 1.11 TestRunner (fixed ChaCha seed from VERIF_SEED, no persistence) over serde case structs, independent f64 reference models, crafted-RNG injection, replay files"},
        ],
        "checks": [],
        "not_applicable": [],
        "notes": "exit 0 = held on everything explored, exit 1 + VIOLATION line, exit 2 = infrastructure problem (never reported as a violation). Known findings: /verif/known_findings.json.",
    }
    for pid in ids:
        if pid in CHECKS:
            tech, text, note, ref = CHECKS[pid]
            man["checks"].append({
                "property_id": pid,
                "quick_cmd": f"./check {pid} quick",
                "thorough_cmd": f"./check {pid} thorough",
                "evidence_file": f"/verif/evidence/{pid}.json",
                "replay_cmd_template": f"./check {pid} --replay {{path}}",
                "engine": "mcmc-verif",
                "level_claimed": {"category": "exploration", "text": text, "design_ref": ref},
                "level_note": note,
                "technique": tech,
            })
        else:
            man["not_applicable"].append({"property_id": pid, "reason": NOT_YET.get(pid, "check not implemented yet (work in progress; planned in DESIGN.md §5)")})
    json.dump(man, open(os.path.join(HERE, "MANIFEST.json"), "w"), indent=1)
    print("wrote MANIFEST.json with", len(man["checks"]), "checks")

if __name__ == "__main__":
    main()

#!/bin/bash
# usage: confirm_seeded.sh <src-dir with patch.diff demo.rs notes.md> <name e.g. C16-1> <property id>
# Confirms in a scratch worktree of /repo HEAD (outside /repo and /verif) that the patch applies,
# builds (with and without features), passes the 45 baseline tests, and that the demo fails with the
# patch and passes without it. On success stores it as /verif/seeded/<name>/ with meta.json.
set -u
SRC=$1; NAME=$2; PID=$3
WT=/var/tmp/seedconfirm/$NAME
export CARGO_TARGET_DIR=/var/tmp/seedconfirm/target-$NAME
mkdir -p /var/tmp/seedconfirm
rm -rf "$WT"; git -C /repo worktree prune
git -C /repo worktree add -q --detach "$WT" HEAD || exit 2
cd "$WT"
res() { echo "$NAME: $1"; }
cleanup() { cd /; git -C /repo worktree remove --force "$WT"; rm -rf "$CARGO_TARGET_DIR"; }
if ! git apply --check "$SRC/patch.diff" 2>/dev/null; then res "patch does not apply"; cleanup; exit 1; fi
FEAT=""
grep -qi "features verif\|feature.*verif\|with_rng\|verif::" "$SRC/demo.rs" "$SRC/notes.md" 2>/dev/null && FEAT="--features verif"
grep -q "io::csv\|save_csv" "$SRC/demo.rs" && FEAT="--features verif,csv,arrow,parquet"
grep -q "io::arrow\|io::parquet" "$SRC/demo.rs" && FEAT="--features verif,csv,arrow,parquet"
cp "$SRC/demo.rs" tests/zz_demo.rs
# 1. demo passes without the patch
if ! cargo test --offline $FEAT --test zz_demo >/tmp/seed-$NAME-clean.log 2>&1; then res "demo FAILS on clean HEAD (rejected)"; tail -5 /tmp/seed-$NAME-clean.log; rm -f /tmp/seed-$NAME-clean.log; cleanup; exit 1; fi
rm -f /tmp/seed-$NAME-clean.log
git apply "$SRC/patch.diff"
# 2. builds with patch (both feature sets)
if ! cargo build --offline >/dev/null 2>&1; then res "does not build"; cleanup; exit 1; fi
if ! cargo build --offline --features verif,csv,arrow,parquet >/dev/null 2>&1; then res "does not build with features"; cleanup; exit 1; fi
# 3. demo fails with the patch
if cargo test --offline $FEAT --test zz_demo >/dev/null 2>&1; then res "demo PASSES with the patch (rejected)"; cleanup; exit 1; fi
# 4. baseline suite passes with the patch (demo removed)
rm -f tests/zz_demo.rs
OUT=$(cargo nextest run --workspace --no-fail-fast --tool-config-file pb:/w/lib/nextest.toml --profile pb --test-threads 8 --offline 2>&1 | grep "Summary")
if ! echo "$OUT" | grep -q "45 tests run: 45 passed"; then res "baseline not 45 passed: $OUT"; cleanup; exit 1; fi
DST=/verif/seeded/$NAME
mkdir -p "$DST"
cp "$SRC/patch.diff" "$SRC/demo.rs" "$DST/"
cp "$SRC/notes.md" "$DST/notes.md" 2>/dev/null
python3 - "$DST" "$PID" "$NAME" "$FEAT" <<'PY'
import json,sys,subprocess
dst,pid,name,feat=sys.argv[1:5]
head=subprocess.run(["git","-C","/repo","rev-parse","--short","HEAD"],capture_output=True,text=True).stdout.strip()
notes=open(dst+"/notes.md").read() if True else ""
json.dump({"name":name,"breaks_property":pid,"repo_head_when_confirmed":head,
 "author":"independent sub-agent given only the property text and a scratch worktree",
 "needs_to_manifest":"see notes.md",
 "confirmed_by_me":["git apply --check on clean HEAD","cargo build --offline (with and without features verif,csv,arrow,parquet)",
   "baseline: cargo nextest ... 45 passed with the patch","demo (tests/zz_demo.rs, cargo test %s --test zz_demo) passes on clean HEAD and fails with the patch"%feat],
 "detected_by":None},open(dst+"/meta.json","w"),indent=1)
PY
res "CONFIRMED -> $DST"
cleanup
exit 0

#!/usr/bin/env python3
"""Hand-made mutants of the anchored code (the lists of DESIGN.md's first version).

Each mutant is a single textual replacement in /repo (must match exactly once). The driver
applies it, runs the quick check of the listed properties, reverts /repo, and writes
tools/mutants_results.md. A mutant that does not compile is reported as such (exit 2 of the
check). These are sensitivity probes of the checks; unlike /verif/seeded they were written by
the author of the checks and are not claimed to pass the 45 baseline tests.

usage: tools/mutants.py [name-substring ...]
"""
import subprocess, sys, os, re, json
REPO = os.environ.get("REPO", "/repo")
VERIF = os.environ.get("VERIF", "/verif")

M = []
def m(name, props, file, old, new):
    M.append(dict(name=name, props=props.split(), file=file, old=old, new=new))

MH = "src/metropolis_hastings.rs"
# ---- C01
m("mh-drop-q-terms", "C01", MH, "let log_accept_ratio = (proposed_lp + log_q_backward) - (current_lp + log_q_forward);", "let log_accept_ratio = proposed_lp - current_lp;")
m("mh-ge-instead-of-gt", "C01", MH, "if log_accept_ratio > u.ln() {", "if log_accept_ratio >= u.ln() {")
m("mh-u-instead-of-ln-u", "C01 C06", MH, "if log_accept_ratio > u.ln() {", "if log_accept_ratio > u {")
m("mh-sign-slip", "C01", MH, "(proposed_lp + log_q_backward) - (current_lp + log_q_forward)", "(proposed_lp - log_q_backward) - (current_lp - log_q_forward)")
m("mh-ratio-halved", "C01 C06", MH, "if log_accept_ratio > u.ln() {", "if log_accept_ratio * F::from(0.5).unwrap() > u.ln() {")
# ---- C02
H = "src/hmc.rs"
m("hmc-first-half-step-full", "C02 C06", H, "Tensor::<B, 2>::from_inner(grads.mul_scalar(self.step_size * T::from(0.5).unwrap()));\n        self.last_grad_summands = grad_summands;", "Tensor::<B, 2>::from_inner(grads.mul_scalar(self.step_size));\n        self.last_grad_summands = grad_summands;")
m("hmc-kinetic-missing-half", "C02 C06", H, "            .squeeze(1)\n            .mul_scalar(T::from(0.5).unwrap());\n\n        // Compute the Hamiltonian", "            .squeeze(1)\n            .mul_scalar(T::from(1.0).unwrap());\n\n        // Compute the Hamiltonian")
m("hmc-greater-instead-of-ge-mask-lower", "C02", H, "let accept_mask = accept_logp.greater_equal(ln_u);", "let accept_mask = accept_logp.lower_equal(ln_u);")
m("hmc-one-leapfrog-less", "C02", H, "for _step_i in 0..self.n_leapfrog {", "for _step_i in 1..self.n_leapfrog.max(1) {")
m("hmc-h-uses-old-logp", "C02 C06", H, "let h_proposed = -logp_proposed + ke_proposed;", "let h_proposed = -logp_proposed.clone() * 0.0 + h_current.clone() * 0.0 + ke_proposed - logp_proposed * 0.5 ;")
m("hmc-momentum-sign", "C02", H, "mom.inplace(|_mom| _mom.add(grad_summands.clone()));", "mom.inplace(|_mom| _mom.sub(grad_summands.clone()));")
# ---- C03
N = "src/nuts.rs"
m("nuts-divergence-100", "C03", N, "let s_prime = (logu - T::from(1000.0).unwrap()) < joint;", "let s_prime = (logu - T::from(100.0).unwrap()) < joint;")
m("nuts-merge-weight", "C03 C06", N, "if u_build_tree < (n_prime_2 as f64 / (n_prime + n_prime_2).max(1) as f64) {", "if u_build_tree < (n_prime_2 as f64 / (n_prime).max(1) as f64) {")
m("nuts-n-prime-not-accumulated", "C03", N, "            n_prime += n_prime_2;\n", "            n_prime = n_prime.max(n_prime_2);\n")
m("nuts-accept-ratio-inverted", "C03 C06", N, "T::from(n_prime).expect(\"successful conversion of n_prime from usize to T\")\n                    / T::from(n).expect(\"successful conversion of n from usize to T\"),", "T::from(n).expect(\"successful conversion of n_prime from usize to T\")\n                    / T::from(n_prime.max(1)).expect(\"successful conversion of n from usize to T\"),")
m("nuts-adopt-from-stopped-subtree", "C03 C14", N, "if s_prime && (u_run_2 < tmp) {\n                self.position = position_prime;", "if u_run_2 < tmp {\n                self.position = position_prime;")
m("nuts-inner-uturn-skipped", "C03", N, "            s_prime = s_prime\n                && s_prime_2\n                && stop_criterion(\n                    position_minus.clone(),\n                    position_plus.clone(),\n                    mom_minus.clone(),\n                    mom_plus.clone(),\n                );\n            alpha_prime", "            s_prime = s_prime && s_prime_2;\n            alpha_prime")
m("nuts-alpha-whole-tree", "C03 C04", N, "                    alpha = alpha_2;\n                    n_alpha = n_alpha_2;\n\n                    (position_prime_2, n_prime_2, s_prime_2)\n                } else {", "                    alpha = alpha + alpha_2;\n                    n_alpha += n_alpha_2;\n\n                    (position_prime_2, n_prime_2, s_prime_2)\n                } else {")
m("nuts-direction-bias", "C03", N, "let v = (2 * (u_run_1 < T::from(0.5).unwrap()) as i8) - 1;", "let v = (2 * (u_run_1 < T::from(0.9).unwrap()) as i8) - 1;")
m("nuts-slice-uniform-instead-of-exp", "C03", N, "let exp1_obs = self.rng.sample(Exp1);", "let exp1_obs: T = self.rng.random::<T>();")
# ---- C04
m("da-t0-1", "C04", N, "            t_0: 10,", "            t_0: 1,")
m("da-kappa", "C04", N, "kappa: T::from(0.75).unwrap(),", "kappa: T::from(0.5).unwrap(),")
m("da-freeze-lt", "C04", N, "if self.m <= self.n_discard {", "if self.m < self.n_discard {")
m("da-hbar-weight", "C04", N, "T::one() / T::from(self.m + self.t_0).expect(\"successful conversion of m + t_0 to T\");", "T::one() / T::from(self.m).expect(\"successful conversion of m + t_0 to T\");")
m("da-mu-without-10", "C04", N, "self.mu = T::ln(T::from(10).unwrap() * self.epsilon);", "self.mu = T::ln(self.epsilon);")
m("da-deficit-sign", "C04", N, "* (self.target_accept_p\n                    - alpha / T::from(n_alpha).expect(\"successful conversion of n_alpha to T\"));", "* (alpha / T::from(n_alpha).expect(\"successful conversion of n_alpha to T\")\n                    - self.target_accept_p);")
m("da-linear-average", "C04", N, "T::exp((T::one() - eta) * T::ln(self.epsilon_bar) + eta * T::ln(self.epsilon));", "(T::one() - eta) * self.epsilon_bar + eta * self.epsilon;")
# ---- C05
G = "src/gibbs.rs"
m("gibbs-skip-last", "C05", G, "(0..self.current_state.len())\n            .for_each(", "(0..self.current_state.len().max(2) - 1)\n            .for_each(")
# ---- C09
C = "src/core.rs"
m("run-discard-gt", "C09 C10", C, "        let state = chain.step();\n        if i >= n_discard {", "        let state = chain.step();\n        if i > n_discard {")
m("hmc-discard-one-less", "C09", H, "(0..n_discard).for_each(|_| self.step());\n\n        // Collect observations.", "(1..n_discard).for_each(|_| self.step());\n\n        // Collect observations.")
m("nuts-run-loop-from-0", "C09 C10", N, "for m in 1..(n_collect + n_discard) {\n            self.step();", "for m in 0..(n_collect + n_discard) {\n            self.step();")
# ---- C10
m("progress-finished-gt", "C10", C, "if n_finished >= most_recent.len() {", "if n_finished > most_recent.len() {")
m("progress-extra-step", "C10", C, "    let total = n_discard + n_collect;\n\n    for i in 0..total {\n        let current_state = chain.step();", "    let total = n_discard + n_collect;\n    chain.step();\n\n    for i in 0..total {\n        let current_state = chain.step();")
m("progress-send-error-propagated", "C10", C, "            if let Err(e) = tx.send(tracker.stats()) {\n                eprintln!(\"Sending chain statistics failed: {e}\");\n            }", "            tx.send(tracker.stats()).map_err(|e| e.to_string())?;")
# ---- C11 / C12
S = "src/stats.rs"
m("rhat-b-uses-c", "C11 C12", S, "let b = diff.pow2().sum() * ((n as f32) / ((c - 1) as f32));", "let b = diff.pow2().sum() * ((n as f32) / (c as f32));")
m("split-halves-overlap", "C11 C12", S, "let half = (n / 2) as i32;", "let half = ((n + 1) / 2) as i32;")
m("summary-median-index", "C11", S, "data[data.len() / 2],", "data[(data.len() / 2 + 1).min(data.len() - 1)],")
m("summary-std-ddof0", "C11", S, "let std = data.std(1.0);", "let std = data.std(0.0);")
m("ess-no-monotone-clamp", "C12", S, "                if p_t > min {\n                    p_t = min;\n                }", "")
m("ess-tau-without-minus-one", "C12", S, "            -1.0 + 2.0 * out\n", "            2.0 * out\n")
m("ess-switch-threshold", "C12", S, "if sample.nrows() <= 100 {", "if sample.nrows() <= 1000 {")
m("ess-bf-normalisation", "C12", S, "out_col[lag] = sum_lag / n as f32;", "out_col[lag] = sum_lag / (n - lag) as f32;")
m("ess-m-unsplit", "C12", S, "tau.recip() * n_chains as f32 * n_steps as f32", "tau.recip() * (n_chains / 2).max(1) as f32 * n_steps as f32")
# ---- C13
m("tracker-unbiased-dropped", "C13", S, "sm2: (self.mean_sq.clone() - self.mean.pow2()) * n / (n - 1.0),", "sm2: (self.mean_sq.clone() - self.mean.pow2()),")
m("tracker-ema-weight", "C13", S, "const ALPHA: f32 = 0.01;", "const ALPHA: f32 = 0.1;")
m("multi-tracker-fac", "C13", S, "let fac = n / (n_chains - 1.0);", "let fac = n / n_chains;")
# ---- C14
m("nuts-slice-test-negated", "C14 C03", N, "let n_prime = (logu < joint) as usize;", "let n_prime = !(logu >= joint) as usize;")
m("hmc-accept-on-nan", "C14 C02", H, "let accept_mask = accept_logp.greater_equal(ln_u);", "let accept_mask = accept_logp.lower(ln_u).bool_not();")
# ---- C15
D = "src/distributions.rs"
m("gauss2d-det-sign", "C15", D, "let term_2 = -half * det.abs().ln();", "let term_2 = half * det.abs().ln();")
m("diffgauss-invcov-transposed-sign", "C15 C02", D, "[-cov[1][0] * inv_det, cov[0][0] * inv_det],", "[cov[1][0] * inv_det, cov[0][0] * inv_det],")
m("rosen-b-wrong-term", "C15", D, "        let term_1 = (-x.clone()).add_scalar(self.a).powi_scalar(2);\n        let term_2 = y.sub(x.powi_scalar(2)).powi_scalar(2).mul_scalar(self.b);\n        -(term_1 + term_2)\n    }", "        let term_1 = (-x.clone()).add_scalar(self.a).powi_scalar(2).mul_scalar(self.b);\n        let term_2 = y.sub(x.powi_scalar(2)).powi_scalar(2);\n        -(term_1 + term_2)\n    }")
m("iso-sample-std-ignored", "C15 C06", D, "let normal = Normal::new(T::zero(), self.std)", "let normal = Normal::new(T::zero(), T::one())")
# ---- C16
m("categorical-normalise-by-max", "C16", D, "let sum: T = probs.iter().cloned().fold(T::zero(), |acc, x| acc + x);", "let sum: T = probs.iter().cloned().fold(T::zero(), |acc, x| acc.max(x));")
m("categorical-fallback-last", "C16", D, ".rposition(|&p| p > T::zero())\n            .unwrap_or(self.probs.len() - 1);", ".rposition(|&p| p >= T::zero())\n            .unwrap_or(self.probs.len() - 1);")
# ---- C17
m("csv-tensor-offset", "C17", "src/io/csv.rs", "let offset = chain_idx * num_obs * num_dims + obs_idx * num_dims;", "let offset = chain_idx * num_obs + obs_idx * num_dims;")
m("parquet-tensor-labels-swapped", "C17", "src/io/parquet.rs", "            observation_builder.append_value(observation as u32);\n            chain_builder.append_value(chain as u32);", "            observation_builder.append_value(chain as u32);\n            chain_builder.append_value(observation as u32);")
m("arrow-narrowing", "C17", "src/io/arrow.rs", "dim_builders[dim_idx].append_value((*val).into());", "dim_builders[dim_idx].append_value(((*val).into()) as f32 as f64);")
# ---- C18
m("init-seed-ignored", "C18 C07", C, "let rng = SmallRng::seed_from_u64(seed);\n    _init(n, d, rng)", "let rng = SmallRng::seed_from_u64(42 + seed * 0);\n    _init(n, d, rng)")
m("init-uniform", "C18", C, "let obs: f64 = StandardNormal.sample(&mut rng);", "let obs: f64 = { let z: f64 = StandardNormal.sample(&mut rng); z.clamp(-2.5, 2.5) };")


def sh(cmd, **kw):
    return subprocess.run(cmd, shell=True, capture_output=True, text=True, **kw)

def main():
    sel = sys.argv[1:]
    rows = []
    assert sh(f"git -C {REPO} status --porcelain --untracked-files=no").stdout.strip() == "", "repo not clean"
    for mt in M:
        if sel and not any(s in mt["name"] for s in sel):
            continue
        path = os.path.join(REPO, mt["file"])
        src = open(path).read()
        if src.count(mt["old"]) != 1:
            rows.append((mt["name"], "-", f"pattern matches {src.count(mt['old'])} times (stale mutant)"))
            print(rows[-1]); continue
        open(path, "w").write(src.replace(mt["old"], mt["new"]))
        try:
            for p in mt["props"]:
                r = sh(f"cd {VERIF} && ./check {p} quick 2>/dev/null")
                sig = re.search(r"^FAIL .*?sig=\[([^\]]*)\]", r.stdout, re.M)
                verdict = {0: "MISSED", 1: "caught", 2: "infrastructure/does-not-build"}.get(r.returncode, str(r.returncode))
                rows.append((mt["name"], p, verdict + (f" [{sig.group(1)}]" if sig else "")))
                print(rows[-1], flush=True)
        finally:
            sh(f"git -C {REPO} checkout -- .")
    with open(os.path.join(VERIF, "tools/mutants_results_last_run.md"), "w") as f:
        f.write("| mutant | check | result |\n|---|---|---|\n")
        for r in rows:
            f.write(f"| {r[0]} | {r[1]} | {r[2]} |\n")
    missed = [r for r in rows if r[2].startswith("MISSED")]
    print(f"{len(rows)} runs, {len(missed)} missed")

if __name__ == "__main__":
    main()
